# Driver of the multi-process (cache directory) world of C12 (DESIGN 4.1.b).
import os, sys, json, random, copy
from . import core, sim_cache as C

def base_dir():
    b = os.path.join(core.workdir(), 'cache')
    os.makedirs(b, exist_ok=True)
    return b

def plan(i, seed):
    rs = core.run_seed('C12', 'cache', i, seed)
    return rs, C.gen_run(random.Random(rs))

def one_run(i, seed, base):
    rs, run = plan(i, seed)
    r = C.execute(base, run, 'r%d' % i)
    out = {'run': i, 'seed': rs, 'status': r['status'], 'hh': core.digest(run)[:16], 'state': run['state']['kind'],
           'nlives': len(run['lives'])}
    if r['status'] != 'ok':
        out['reason'] = r.get('reason')
        return out
    out['stats'] = r['stats']
    if r['violation']:
        out['class'] = r['violation']['class']
        out['violation'] = r['violation']
    if i < 2:
        out['sample'] = run
    return out

def confirm(base, run, cls, tag):
    r = C.execute(base, run, tag)
    return r['status'] == 'ok' and r['violation'] is not None and r['violation']['class'] == cls, r

def minimise(base, run, cls):
    cur = copy.deepcopy(run)
    n = [0]
    def ok(cand):
        n[0] += 1
        return confirm(base, cand, cls, 'min%d' % n[0])[0]
    # fewer lifetimes
    lives = core.ddmin(cur['lives'], lambda ls: bool(ls) and ok(dict(cur, lives=ls)), 40)
    cur['lives'] = lives
    for lf in cur['lives']:
        for simpler in ({'fault': None}, {'bytecode': False}, {'order': ['arch']}):
            cand_lf = dict(lf)
            for k, v in simpler.items():
                if v is None:
                    cand_lf.pop(k, None)
                else:
                    cand_lf[k] = v
            if cand_lf != lf:
                cand = dict(cur, lives=[cand_lf if x is lf else x for x in cur['lives']])
                if ok(cand):
                    lf.clear()
                    lf.update(cand_lf)
    st = cur['state']
    for simpler in ({'readonly': None}, {'kind': 'empty'}, {'kind': 'warm'}, {'targets': [C.MODS[0]]}, {'targets': [C.MODS[1]]}):
        cand_st = dict(st)
        for k, v in simpler.items():
            if v is None:
                cand_st.pop(k, None)
            else:
                cand_st[k] = v
        if cand_st.get('kind') in ('empty', 'warm'):
            cand_st.pop('targets', None); cand_st.pop('foreign', None)
        if cand_st != st and ok(dict(cur, state=cand_st)):
            st = cand_st
            cur['state'] = st
    return cur

def _pycache_dirs(root):
    out = set()
    for dp, dn, fn in os.walk(root):
        if '.git' in dn:
            dn.remove('.git')
        if os.path.basename(dp) == '__pycache__':
            out.add(dp)
    return out

def run(batch, n_runs):
    # lifetimes with byte-code caching switched on leave __pycache__ directories in the tree under test: those that were
    # not there before this batch are removed again when it ends
    before = _pycache_dirs(core.REPO)
    try:
        return run2(batch, n_runs)
    finally:
        import shutil
        for d in sorted(_pycache_dirs(core.REPO) - before, reverse=True):
            shutil.rmtree(d, ignore_errors=True)

def run2(batch, n_runs):
    base = base_dir()
    C.warm_dir(base)
    C.stale_grammar_dir(base)
    C.stale_grammar_dir(base, 'ruleorder')
    C.stale_grammar_dir(base, 'ruletext')      # (every master is built here, in the parent: built lazily, two workers would race for it)
    for o in C.ORDERS:
        C.reference(base, o)        # computed once in the parent, inherited by the forked workers
    seed = batch.seed
    stop = core.EarlyStop(lambda r: 'class' in r)
    recs = core.parallel_runs(lambda i: one_run(i, seed, base), list(range(n_runs)), progress=stop)
    fired, states = {}, {}
    hashes, nontrivial = set(), set()
    lifetimes = crashes = 0
    samples, viol, digests = [], [], []
    skipped = 0
    for i in sorted(recs):
        r = recs[i]
        if r.get('_skipped'):
            skipped += 1; continue
        if '_harness_error' in r:
            batch.harness_errors.append(r['_harness_error']); continue
        if r['status'] != 'ok':
            batch.discard('cache:' + str(r.get('reason'))); continue
        digests.append([i, r.get('class'), r['hh'], core.digest(r['stats'])[:16]])      # run content + everything observed
        hashes.add(r['hh'])
        states[r['state']] = states.get(r['state'], 0) + 1
        lifetimes += r['stats']['lifetimes']; crashes += r['stats']['crashes']
        kinds = set()
        for f in r['stats']['fired']:
            k = f.split('@')[0].split(':')[0]
            kinds.add(k)
            fired[k] = fired.get(k, 0) + 1
        if kinds or r['state'] != 'warm':
            nontrivial.add(r['hh'])
        if 'sample' in r:
            samples.append(r['sample'])
        if 'class' in r:
            viol.append((i, r))
    seen = set()
    for i, r in viol:
        cls = r['class']
        if cls in seen or len(seen) >= 3:
            continue
        seen.add(cls)
        rs, plan_run = plan(i, seed)
        ok, _ = confirm(base, plan_run, cls, 'c%d' % i)
        if not ok:
            batch.harness_errors.append('C12 cache violation of run %d (%s) did not reproduce' % (i, cls))
            continue
        small = minimise(base, plan_run, cls)
        ok, rr = confirm(base, small, cls, 'f%d' % i)
        v = rr['violation'] if ok else r['violation']
        rec = {'property': 'C12', 'world': 'cache', 'seed': seed, 'run': i, 'run_seed': rs, 'class': cls, 'run_spec': small if ok else plan_run,
               'schedule': 'process lifetimes in list order; only the directory survives',
               'faults': {'initial_state': (small if ok else plan_run)['state'], 'per_lifetime': [lf.get('fault') for lf in (small if ok else plan_run)['lives']]},
               'expected': v['detail'].get('reference', v['detail'].get('warm_dir')), 'got': v['detail'].get('got', v['detail'].get('empty_dir')),
               'detail': v['detail']}
        path = core.write_replay('C12', rec)
        batch.violations.append({'replay': path, 'class': cls})
    return {
        'evaluations': n_runs - skipped,
        'skipped_after_early_stop': skipped,
        'distinct_histories': len(hashes),
        'distinct_nontrivial': len(nontrivial),
        'process_lifetimes': lifetimes,
        'lifetimes_killed_by_injected_crash': crashes,
        'initial_states': dict(sorted(states.items())),
        'faults_fired': dict(sorted(fired.items())),
        'samples': samples,
        'log_digest': core.digest(digests),
    }

def replay(path):
    with open(path) as f:
        rec = json.load(f)
    base = base_dir()
    ok, r = confirm(base, rec['run_spec'], rec['class'], 'replay')
    if r['status'] != 'ok':
        print('HARNESS-ERROR replay did not complete: %s' % r.get('reason'))
        return 2
    if ok:
        print('VIOLATION property=C12 replay=%s' % path)
        print('  class=%s reproduced=True identical_detail=%s' % (rec['class'], r['violation']['detail'] == rec['detail']))
        return 1
    print('replay: violation class %s did not occur' % rec['class'])
    return 0
