# Seeded workload of C13 (hash-seed independence).  Pure function of the seed;
# uses lists only (no set / dict iteration), so it is identical in every
# interpreter whatever its string-hash key.
import random
from . import gen

REG_RECIPES = [['D', n, 32, False, True] for n in gen.REGS32] + [['D', 'init_' + n, 32, True, True] for n in gen.REGS32]
FRESH = [['D', n, 32, False, False] for n in ('a', 'b', 'c', 'lbl_1', 'x9')]
LOOKALIKE = [['D', n, 32, False, False] for n in ('eax', 'ecx', 'init_eax')]     # same name and size as a register, other flags

def r_int(v, size=32):
    return ['I', 'uint%d' % size, v & ((1 << size) - 1)]

CONSTS = [0, 1, 2, 4, 8, 0x10, 0xff, 0x100, 0xffff, 0x7fffffff, 0x80000000, 0xffffffff, 0xfffffffe]

def leaf(rng, size=32):
    k = rng.random()
    if size != 32:
        if k < 0.4:
            return r_int(rng.choice(CONSTS), size)
        start = rng.choice([0, 8, 16, 24] if size == 8 else [0, 16] if size == 16 else [0])
        return ['S', rng.choice(REG_RECIPES + FRESH), start, start + size]
    if k < 0.5:
        return rng.choice(REG_RECIPES)
    if k < 0.65:
        return rng.choice(FRESH)
    if k < 0.9:
        return r_int(rng.choice(CONSTS) if rng.random() < 0.7 else rng.getrandbits(32))
    return ['M', ['O', '+', [rng.choice(REG_RECIPES), r_int(rng.choice([0, 4, 8, 0xfffffffc]))]], 32, None, False]

def tree(rng, depth, size=32):
    if depth <= 0 or rng.random() < 0.2:
        return leaf(rng, size)
    if size != 32:
        k = rng.random()
        if k < 0.15 and size == 16:
            # a 16-bit compose made only of adjacent byte slices of one source (merges into one slice that does not cover the source)
            src = rng.choice(REG_RECIPES + FRESH)
            st = rng.choice([0, 8, 16])
            return ['C', [[['S', src, st, st + 8], 0, 8], [['S', src, st + 8, st + 16], 8, 16]]]
        if k < 0.27 and size == 16:
            # a narrow operation whose operands denote the same 16 bits, once byte by byte and once directly
            src = rng.choice(REG_RECIPES + FRESH)
            st = rng.choice([0, 8, 16])
            bytewise = ['C', [[['S', src, st, st + 8], 0, 8], [['S', src, st + 8, st + 16], 8, 16]]]
            direct = ['S', src, st, st + 16]
            op = rng.choice(['^', '^', '+', '|', '&'])
            args = [bytewise, ['O', '-', [direct]] if op == '+' else direct]
            if rng.random() < 0.7:
                args.append(leaf(rng, 16))
            rng.shuffle(args)
            return ['O', op, args]
        if k < 0.6:
            src = tree(rng, depth - 1, 32)
            start = rng.choice([0, 8, 16, 24] if size == 8 else [0, 16])
            return ['S', src, start, start + size]
        if k < 0.8 and size == 16:
            inner = tree(rng, depth - 1, 32)
            return ['S', ['S', inner, 0, 24] if rng.random() < 0.5 else inner, 8, 24]
        return leaf(rng, size)
    if depth >= 2 and rng.random() < 0.012:
        # a wide node: 17-40 operands of one commutative-associative operator (thresholds and caps on operand counts),
        # with a few duplicates and constants; the variants re-nest and permute it
        op = rng.choice(['+', '^', '^', '&', '|', '*'])
        n = rng.choice([17, 18, 24, 33, 34, 40])
        base = rng.choice(REG_RECIPES)
        pool = [['M', ['O', '+', [base, r_int(4 * i)]], 32, None, False] for i in range(n)] + list(REG_RECIPES) + list(FRESH)
        args = rng.sample(pool, n)
        for _ in range(rng.choice([0, 1, 2])):
            args.append(rng.choice(args))
        for _ in range(rng.choice([0, 1, 2])):
            args.insert(rng.randrange(len(args)), r_int(rng.choice(CONSTS)))
        return ['O', op, args]
    k = rng.random()
    if k < 0.40:
        op = rng.choice(['+', '+', '+', '^', '&', '|', '*'])
        n = rng.choice([2, 2, 3, 4])
        args = [tree(rng, depth - 1) for _ in range(n)]
        y = rng.random()
        if y < 0.10:
            # two siblings applying the same NON-commutative operator to swapped operands
            # (operands anchored on identifiers: two constants would make the simplifier fold a huge shift)
            a, b = rng.sample(REG_RECIPES + FRESH, 2)
            if rng.random() < 0.4:
                a = ['O', '+', [a, tree(rng, depth - 2)]]
            nc = rng.choice(['<<', '>>', 'a>>', '<<<', '>>>', '==', '-'])
            args += [['O', nc, [a, b]], ['O', nc, [b, a]]]
        elif y < 0.28:
            # a register, an identifier that only LOOKS like it (same name and size, not a register), the register again
            r = rng.choice([x for x in REG_RECIPES if x[1] in ('eax', 'ecx', 'init_eax')])
            u = [x for x in LOOKALIKE if x[1] == r[1]][0]
            wrap = rng.choice(['id', 'mem', 'slice'])
            def mk(x):
                if wrap == 'mem':
                    return ['M', x, 32, None, False]
                return x
            args += rng.choice([[mk(r), mk(u), mk(r)], [mk(u), mk(r), mk(u)], [mk(r), mk(r), mk(u)]])
        elif y < 0.36:
            # sibling conditions that share the condition and one branch
            c0 = rng.choice(REG_RECIPES + FRESH)
            s1, s2, s3 = r_int(rng.choice(CONSTS)), r_int(rng.choice(CONSTS)), rng.choice(REG_RECIPES)
            args += rng.choice([[['?', c0, s1, s2], ['?', c0, s1, s3]], [['?', c0, s2, s1], ['?', c0, s3, s1]], [['?', c0, s1, s3], ['?', c0, s1, s2]]])
        elif y < 0.41 and op in ('^', '|', '&', '+'):
            # the same 16-bit value once as two adjacent byte slices and once as one slice, zero-extended
            src = rng.choice(REG_RECIPES + FRESH)
            st = rng.choice([0, 8, 16])
            bytewise = ['C', [[['S', src, st, st + 8], 0, 8], [['S', src, st + 8, st + 16], 8, 16]]]
            direct = ['S', src, st, st + 16]
            z = r_int(0, 16)
            args += [['C', [[bytewise, 0, 16], [z, 16, 32]]], ['C', [[direct, 0, 16], [z, 16, 32]]]]
        elif y < 0.47:
            # conditions that differ only in the stop of a nested slice (a size-neutral position)
            src = rng.choice(REG_RECIPES + FRESH)
            st = rng.choice([0, 8])
            c1, c2 = ['S', src, st, st + 8], ['S', src, st, st + 16]
            flavour = rng.random()
            if flavour < 0.3:
                # ... or only in the size of a memory read at one address
                addr = src if rng.random() < 0.5 else ['O', '+', [src, r_int(rng.choice([4, 8]))]]
                w1, w2 = rng.sample([8, 16, 32], 2)
                c1, c2 = ['M', addr, w1, None, False], ['M', addr, w2, None, False]
            elif flavour < 0.6:
                # ... or only in the width of the last, constant slot of a compose (movzx to 16 / to 32 bits)
                lo = ['S', src, st, st + 8]
                c1 = ['C', [[lo, 0, 8], [r_int(0, 8), 8, 16]]]
                c2 = ['C', [[lo, 0, 8], [['I', 'uint32', 0], 8, 32]]]
            s1, s2 = rng.choice(REG_RECIPES), rng.choice(REG_RECIPES)
            args += rng.choice([[['?', c1, s1, s2], ['?', c2, s1, s2]], [['?', c2, s1, s2], ['?', c1, s1, s2]]])
        elif y < 0.50 and op == '+':
            # the same negated term more than once (cancellation must not depend on the grouping)
            a = rng.choice(REG_RECIPES + FRESH)
            na = ['O', '-', [a]]
            args += rng.choice([[na, na, a], [a, na, na], [na, a, na], [na, na]])
        elif y < 0.56:
            # a term and its negation as siblings (sort keys must tell them apart)
            a = rng.choice(REG_RECIPES + FRESH) if rng.random() < 0.6 else tree(rng, depth - 2)
            args += rng.choice([[a, ['O', '-', [a]]], [['O', '-', [a]], a]])
        elif y < 0.64 and op in ('|', '&', '^', '+'):
            # memory operands that differ only by their segment, plus a duplicate
            addr = rng.choice(REG_RECIPES) if rng.random() < 0.6 else ['O', '+', [rng.choice(REG_RECIPES), r_int(rng.choice([4, 8]))]]
            segs = [['D', sname, 16, False, True] for sname in rng.sample(['ds', 'es', 'ss', 'fs'], 2)]
            m0 = ['M', addr, 32, segs[0], False]
            m1 = ['M', addr, 32, segs[1], False]
            args += rng.choice([[m0, m1, m0], [m1, m0], [m0, m1, m1], [m1, ['M', addr, 32, None, False], m0]])
        elif y < 0.72:
            # sibling operands that are n-ary nodes of one OTHER operator with prefix-related operand lists
            # ((a^b) and (a^b^c)): the order on expressions must still separate them
            op2 = rng.choice([o for o in ('+', '^', '&', '|') if o != op])
            xs = rng.sample(REG_RECIPES + FRESH, 3) + [r_int(rng.choice([0x10, 0xff00, 3]))]
            short, longer = ['O', op2, xs[:2]], ['O', op2, xs[:3]]
            sib = [short, longer] + ([['O', op2, xs[:4]]] if rng.random() < 0.3 else [])
            rng.shuffle(sib)
            args += sib
        elif y < 0.76:
            # deep twins: sibling operands built by the same 8-11 rounds of wrappers over different leaves, so that
            # they are identical on their top levels and differ only deep down
            rounds = [(rng.choice(['+', '^', '*']), r_int(rng.choice([1, 3, 5, 0x10])), rng.choice(['<<', '>>', '<<<']), r_int(rng.choice([1, 3, 5])))
                      for _ in range(rng.randrange(4, 7))]
            def grow(t):
                for o1, c1, o2, c2 in rounds:
                    t = ['O', o2, [['O', o1, [t, c1]], c2]]
                return t
            leaves = rng.sample(REG_RECIPES + FRESH, rng.choice([2, 3]))
            args += [grow(x) for x in leaves]
        if rng.random() < 0.25:
            args.append(args[0])                     # A op A rules
        if op == '+' and rng.random() < 0.25:
            args.append(['O', '-', [args[0]]])       # A + (-A)
        return ['O', op, args]
    if k < 0.48:
        return ['O', '-', [tree(rng, depth - 1)]]
    if k < 0.53:
        return ['O', '-', [tree(rng, depth - 1), tree(rng, depth - 1)]]
    if k < 0.63:
        op = rng.choice(['<<', '>>', 'a>>', '<<<', '>>>'])
        # the shifted operand is anchored on an identifier: a constant one makes
        # the simplifier fold 'count << value' (operands swapped) into a
        # gigantic integer - C05's termination clause, not C13
        inner = rng.choice(REG_RECIPES + FRESH)
        if rng.random() < 0.5:
            inner = ['O', rng.choice(['+', '^', '|']), [inner, tree(rng, depth - 1)]]
        if op in ('<<<', '>>>') and rng.random() < 0.4:
            inner = ['O', rng.choice(['<<<', '>>>']), [inner, r_int(rng.choice([1, 4, 8]))]]
        if op == '>>' and rng.random() < 0.3:
            inner = ['O', '&', [inner, r_int(rng.choice([0xf, 0xff, 0xff00]))]]
        return ['O', op, [inner, r_int(rng.choice([0, 1, 4, 8, 16, 31, 32]))]]
    if k < 0.66:
        return compose(rng, depth)
    if k < 0.73:
        cut = rng.choice([8, 16])
        if rng.random() < 0.15:
            # two runs of adjacent slices of one source, kept apart by a foreign nibble
            src, other = rng.sample(REG_RECIPES + FRESH, 2)
            return ['C', [[['S', src, 0, 8], 0, 8], [['S', src, 8, 12], 8, 12], [['S', other, 12, 16], 12, 16],
                          [['S', src, 16, 24], 16, 24], [['S', src, 24, 32], 24, 32]]]
        if rng.random() < 0.4:
            src = rng.choice(REG_RECIPES + FRESH)    # slices of the same source: merge rule
            return ['C', [[['S', src, 0, cut], 0, cut], [['S', src, cut, 32], cut, 32]]]
        lo = tree(rng, depth - 1, cut)
        hi = tree(rng, depth - 1, 32)
        return ['C', [[lo, 0, cut], [['S', hi, cut, 32], cut, 32]]]
    if k < 0.81:
        c = tree(rng, depth - 1)
        if rng.random() < 0.3:
            c = ['O', '-', [c]]
        return ['?', c, tree(rng, depth - 1), tree(rng, depth - 1)]
    if k < 0.88:
        return ['M', tree(rng, depth - 1), 32, None, False]
    if k < 0.94:
        return ['O', '==', [tree(rng, depth - 1), tree(rng, depth - 1) if rng.random() < 0.5 else r_int(0)]]
    return ['O', 'parity', [tree(rng, depth - 1)]]

SRC16 = [['D', n, 16, False, False] for n in ('w', 'v')] + [['D', n, 16, False, True] for n in ('es', 'ds')]
def compose(rng, depth):
    """32-bit compose of 2-4 byte-aligned slots; slots are slices of shared 16-
    or 32-bit sources at matching or different positions (merge rules),
    constants, or slices of sub-trees."""
    cuts = sorted(rng.sample([8, 16, 24], rng.choice([1, 2, 2, 3])))
    bounds = [0] + cuts + [32]
    src32 = rng.choice(REG_RECIPES + FRESH)
    src16 = rng.choice(SRC16)
    slots = []
    for a, b in zip(bounds, bounds[1:]):
        w = b - a
        y = rng.random()
        if y < 0.35:
            slots.append([['S', src32, a, b], a, b])                 # same position: merges back to the source
        elif y < 0.55 and b <= 16:
            slots.append([['S', src16, a, b], a, b])                 # adjacent slices of a 16-bit source
        elif y < 0.65 and w <= 16:
            lo = rng.choice([0, 8]) if w == 8 else 0
            slots.append([['S', src16, lo, lo + w], a, b])
        elif y < 0.8 and w in (8, 16):
            slots.append([r_int(rng.choice(CONSTS), w), a, b])
        elif y < 0.9:
            slots.append([['S', rng.choice(REG_RECIPES), rng.choice([0, 8]) if w <= 24 else 0, 0, ], a, b])
            lo = slots[-1][0][2]
            slots[-1][0] = ['S', slots[-1][0][1], lo, lo + w]
        else:
            slots.append([['S', tree(rng, depth - 1), a, b], a, b])
    return ['C', slots]

ASSOC = ('+', '*', '^', '&', '|')

def variants(rng, e, n=3):
    """Expressions that differ from e only in the order / nesting of the
    operands of commutative-associative operators."""
    def shuffle(x):
        if not isinstance(x, list) or not x:
            return x
        t = x[0]
        if t == 'O':
            args = [shuffle(a) for a in x[2]]
            if x[1] in ASSOC:
                args = list(args)
                rng.shuffle(args)
                if len(args) >= 3 and rng.random() < 0.6:
                    cut = rng.randrange(1, len(args) - 1) if len(args) > 2 else 1
                    args = [['O', x[1], args[:cut + 1]]] + args[cut + 1:]
                    if rng.random() < 0.5:
                        args.reverse()
            return ['O', x[1], args]
        if t == 'M':
            return ['M', shuffle(x[1]), x[2], x[3], x[4]]
        if t == 'S':
            return ['S', shuffle(x[1]), x[2], x[3]]
        if t == 'C':
            return ['C', [[shuffle(a[0]), a[1], a[2]] for a in x[1]]]
        if t == '?':
            return ['?', shuffle(x[1]), shuffle(x[2]), shuffle(x[3])]
        return x
    return [shuffle(e) for _ in range(n)]

def has_assoc(e):
    if not isinstance(e, list) or not e:
        return False
    if e[0] == 'O':
        return (e[1] in ASSOC and len(e[2]) >= 2) or any(has_assoc(a) for a in e[2])
    if e[0] in ('M', 'S'):
        return has_assoc(e[1])
    if e[0] == 'C':
        return any(has_assoc(a[0]) for a in e[1])
    if e[0] == '?':
        return any(has_assoc(a) for a in e[1:4])
    return False

PTR = {8: 'BYTE PTR', 16: 'WORD PTR', 32: 'DWORD PTR'}
def emul_program(rng):
    lines = []
    regs = ['eax', 'ecx', 'edx', 'ebp']
    bases = ['ebx', 'esp', 'esi', 'edi']
    n = rng.randrange(3, 9)
    for _ in range(n):
        k = rng.random()
        w = rng.choice([8, 16, 32])
        r = rng.choice({8: ['al', 'cl', 'dl', 'ah'], 16: ['ax', 'cx', 'dx'], 32: regs}[w])
        if k < 0.55:
            lines.append('mov %s [%s%+d], %s' % (PTR[w], rng.choice(bases), 4 * rng.randrange(-4, 12) + rng.choice([0, 0, 1, 2]), r))
        elif k < 0.7:
            lines.append('mov %s, %s [%s%+d]' % (r, PTR[w], rng.choice(bases), rng.randrange(-8, 24)))
        elif k < 0.8:
            lines.append(rng.choice(['push eax', 'push ecx', 'pop edx', 'push 5']))
        elif k < 0.9:
            lines.append('%s %s, %s' % (rng.choice(['add', 'xor', 'sub', 'and', 'or']), rng.choice(regs), rng.choice(regs)))
        else:
            lines.append(rng.choice(['lea eax, [ebx+ecx*4+8]', 'xchg eax, edx', 'movzx eax, cl', 'neg ecx', 'shl eax, 4', 'inc edx']))
    return lines

SYMS = ['foo', 'bar', 'baz', 'alpha', 'beta', 'gamma', 'delta', '.LC0', '.LC1', 'tab', 'off', 'first', 'second']
def symline(rng):
    n = rng.choice([2, 2, 3, 4])
    syms = rng.sample(SYMS, n)
    expr = syms[0]
    for x in syms[1:]:
        expr += rng.choice(['+', '+', '+', '-']) + x
    k = rng.random()
    if k < 0.3:
        return 'mov eax, OFFSET FLAT:%s' % expr
    if k < 0.55:
        return 'mov eax, DWORD PTR [ebx+%s]' % expr
    if k < 0.75:
        return 'lea ecx, [%s+edx+4]' % expr
    if k < 0.9:
        return 'push %s+8' % expr
    if rng.random() < 0.5:
        return 'mov DWORD PTR %s[ebx], eax' % expr
    if rng.random() < 0.5:
        return 'mov eax, DWORD PTR %s[ebx+%s]' % (syms[0], syms[1])
    return 'lea esi, %s+%s[0+edi*8]' % (syms[0], syms[1])

def twin_items(rng):
    """The same small shape at two widths, one after the other (anything keyed on values alone collides)."""
    a, b = rng.choice([0xF0, 0x20, 0x80, 0x81, 0xFF, 1]), rng.choice([0xF0, 0x20, 0x80, 0x81, 0x7F, 1])
    op = rng.choice(['+', '^', '&', '|', '*'])
    out = []
    for w in rng.sample([8, 16, 32], 2):
        zf = ['D', 'zf', 1, False, True]
        shape = rng.choice(['ints', 'cond', 'id'])
        if shape == 'ints':
            e = ['O', op, [r_int(a, w), r_int(b, w)]]
        elif shape == 'cond':
            e = ['O', '^', [['?', zf, r_int(1, w), r_int(0, w)], r_int(a, w), r_int(b, w)]]
        else:
            e = ['O', op, [['D', 'q', w, False, False], r_int(a, w), r_int(b, w)]]
        it = {'kind': 'simp', 'e': e, 'variants': variants(rng, e)}
        out.append(it)
    return out

def alias_bytes(rng):
    """Encodings whose operands alias each other or an implicit operand (pop esp, cmpxchg with the accumulator as
    operand, xadd / xchg of a register with itself, push/pop through the stack pointer ...): the lifted assignment
    list then names one destination twice, or reads what it writes, and only the commit order decides."""
    r = rng.randrange(8)
    q = rng.choice([r, r, 0, 4, rng.randrange(8)])
    mrr = 0xC0 | (q << 3) | r
    k = rng.randrange(12)
    if k == 0:
        b = [0x58 + rng.choice([4, 4, r])]                     # pop r (esp)
    elif k == 1:
        b = [0x8f, 0xC0 | rng.choice([4, 4, r])]               # pop r/m32, register form
    elif k == 2:
        b = [0x50 + rng.choice([4, 4, r])]                     # push r (esp)
    elif k == 3:
        b = [0x0f, rng.choice([0xb1, 0xb1, 0xb0]), 0xC0 | (q << 3) | rng.choice([0, 0, r])]     # cmpxchg (accumulator as operand)
    elif k == 4:
        b = [0x0f, rng.choice([0xc1, 0xc0]), mrr]              # xadd
    elif k == 5:
        b = [rng.choice([0x87, 0x86]), mrr]                    # xchg
    elif k == 6:
        b = [0x8f, 0x04, 0x24] if rng.random() < 0.5 else [0x8f, 0x44, 0x24, 0x04]       # pop [esp], pop [esp+4]
    elif k == 7:
        b = [0xff, 0x34, 0x24] if rng.random() < 0.5 else [0xff, 0xf4]                   # push [esp], push esp
    elif k == 8:
        b = [rng.choice([0xc9, 0x61, 0x60, 0x9d, 0x9c, 0x99, 0x98])]                      # leave popa pusha popf pushf cdq cwde
    elif k == 9:
        b = [0xf7, rng.choice([0xe0, 0xe8, 0xf0, 0xf8]) | rng.choice([0, 2, r])]         # mul/imul/div/idiv by eax / edx
    elif k == 10:
        b = [0x0f, 0xaf, mrr] if rng.random() < 0.5 else [0x8d, 0x04 | (r << 3), rng.choice([0x00, 0x24, 0x09, 0x40 | r])]   # imul r,r / lea r,[sib]
    else:
        b = [rng.choice([0xa4, 0xa5, 0xa6, 0xa7, 0xaa, 0xab, 0xac, 0xad, 0xae, 0xaf, 0x91 + rng.randrange(7), 0xd7])]
    if rng.random() < 0.15:
        b = [0x66] + b
    return bytes(b).hex()

def eqsib_item(rng):
    """Operands P, Q, P' of one ^ | & + node where P and P' are EQUAL for the library (same text, `==`) but not the same
    structure - a constant typed at another width in a width-erasing position (an immediate shift count is lifted at 32
    bits, a count coming through cl at 8), or a memory operand / identifier carrying the terminal flag or not (a direct
    read of a cell vs the same cell narrowed from a wider read) - and Q is a neighbour that an order on expressions
    may put between them.  Compared by text and library equality (which of P, P' survives is not observable)."""
    x = rng.choice(REG_RECIPES + FRESH)
    fl = rng.randrange(3)
    if fl == 0:
        sh = rng.choice(['<<', '>>', 'a>>', '<<<', '>>>'])
        c = rng.choice([1, 3, 4, 8])
        P, P2 = ['O', sh, [x, r_int(c, 32)]], ['O', sh, [x, r_int(c, 8)]]
        Qs = [['O', sh, [x, r_int(c + rng.choice([1, 2, -1]), rng.choice([8, 32]))]], ['O', sh, [x, r_int(c + 1, 8)]], ['O', sh, [x, r_int(max(c - 1, 0), 32)]]]
    elif fl == 1:
        addr = x if rng.random() < 0.5 else ['O', '+', [x, r_int(rng.choice([4, 8]))]]
        w = rng.choice([8, 16, 32])
        P, P2 = ['M', addr, w, None, True], ['M', addr, w, None, False]
        Qs = [['C', [[['S', rng.choice(REG_RECIPES), 0, 16], 0, 16], [r_int(5, 16), 16, 32]]], ['M', ['O', '+', [x, r_int(12)]], w, None, rng.random() < 0.5],
              ['M', addr, 32 if w != 32 else 16, None, False]]
        Qs.append(['M', addr, w, ['D', rng.choice(['ds', 'es']), 16, False, True], False])      # same cell, segment-qualified
        if w != 32:
            z = r_int(0, 32 - w)
            lowP = P2
            P, P2 = ['C', [[P, 0, w], [z, w, 32]]], ['C', [[P2, 0, w], [z, w, 32]]]
            Qs[1] = ['C', [[Qs[1], 0, w], [z, w, 32]]]
            Qs[2] = rng.choice(REG_RECIPES)
            Qs[3] = ['C', [[Qs[3], 0, w], [z, w, 32]]]
            Qs += [['C', [[lowP, 0, w], [r_int(5, 32 - w), w, 32]]]] * 2     # same low part, another constant above it
    else:
        n = rng.choice(['init_eax', 'q', 'eax'])
        P, P2 = ['D', n, 32, True, False], ['D', n, 32, False, False]
        Qs = [['D', n, 32, False, True], ['D', n + 'a', 32, False, False], ['M', ['D', n, 32, True, False], 32, None, False]]
    op = rng.choice(['^', '|', '&', '|', '&', '+'])
    args = [P, rng.choice(Qs), P2]
    if rng.random() < 0.5:
        args.append(rng.choice(Qs))
    if rng.random() < 0.3:
        args.append(leaf(rng))
    rng.shuffle(args)
    e = ['O', op, args]
    return {'kind': 'simp', 'e': e, 'variants': variants(rng, e, 5), 'lax': True}

def affs_item(rng):
    """An assignment list handed to eval_instr directly (a client's own instruction semantics): two or three stores
    through one base whose cells overlap or coincide, and a register written twice.  Which store wins on the shared
    bytes is decided by list order - never by the process."""
    base = rng.choice(['esi', 'esp', 'ebx'])
    n = rng.choice([2, 2, 3])
    d0 = rng.choice([-8, -4, 0, 4])
    affs = []
    for k in range(n):
        w = rng.choice([8, 16, 32, 32])
        d = d0 + rng.choice([0, 1, 2, 3, 3, 4])
        src = rng.choice(['eax', 'ecx', 'edx', 'ebp'])
        s_ = ['D', src, 32, False, True]
        if w != 32:
            s_ = ['S', s_, 0, w]
        addr = ['D', base, 32, False, True] if d == 0 else ['O', '+', [['D', base, 32, False, True], r_int(d)]]
        affs.append(['=', ['M', addr, w, None, False], s_])
    if rng.random() < 0.4:
        r = rng.choice(['eax', 'edx'])
        affs.append(['=', ['D', r, 32, False, True], ['D', 'ecx', 32, False, True]])
        affs.insert(rng.randrange(len(affs)), ['=', ['D', r, 32, False, True], ['D', 'ebp', 32, False, True]])
    return {'kind': 'affs', 'affs': affs, 'base': base, 'lo': d0 - 2, 'hi': d0 + 9}

def workload(seed, n):
    items = workload0(seed, n)
    for idx, it in enumerate(items):
        if it['kind'] == 'sets':
            r2 = random.Random('%d/%d/affs' % (seed, idx))
            if r2.random() < 0.35:
                items[idx] = affs_item(r2)
    for idx, it in enumerate(items):
        if it['kind'] == 'simp':
            r2 = random.Random('%d/%d/eqsib' % (seed, idx))
            if r2.random() < 0.04:
                items[idx] = eqsib_item(r2)
    # second pass (keyed by seed and position, the main stream of choices is untouched): some lift items take an
    # encoding with aliasing operands instead
    for idx, it in enumerate(items):
        if it['kind'] == 'lift':
            r2 = random.Random('%d/%d/alias' % (seed, idx))
            if r2.random() < 0.25:
                it['hex'] = alias_bytes(r2)
    return items

def workload0(seed, n):
    rng = random.Random(seed)
    items = []
    for i in range(n):
        k = rng.random()
        if k < 0.02 and len(items) < n - 1:
            items += twin_items(rng)
            continue
        if len(items) >= n:
            break
        if k < 0.04:
            items.append({'kind': 'symline', 'line': symline(rng)})
        elif k < 0.55:
            e = tree(rng, rng.choice([1, 2, 3, 3, 4, 5]), 16 if rng.random() < 0.08 else 32)
            it = {'kind': 'simp', 'e': e}
            if has_assoc(e):
                it['variants'] = variants(rng, e)
            items.append(it)
        elif k < 0.75:
            hx = rng.choice(gen.BYTES_POOL) if rng.random() < 0.8 else gen.gen_random_bytes(rng)
            items.append({'kind': 'lift', 'hex': hx})
        elif k < 0.92:
            items.append({'kind': 'emul', 'lines': emul_program(rng)})
        else:
            items.append({'kind': 'sets', 'e': tree(rng, rng.choice([2, 3, 4]))})
    return items[:n]
