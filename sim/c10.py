# C10 driver (stream clauses only; DESIGN 4.2).
import os, sys, json, random
from . import core, runner

TIERS = {'quick': {'runs': 35000}, 'thorough': {'runs': 800000}}
CHILD_TIMEOUT = 60.0

def _pristine_decode(bhex, mode):
    from . import sim_stream as SS
    return list(SS.outcome(lambda: SS.view(SS.dis_bytes(bytes.fromhex(bhex), mode))))

def _px_factory():
    # runs in a servant forked from the run's child BEFORE its first decode: a pristine copy that never
    # decodes itself; every request is served by a throw-away fork of it
    def handler(req):
        c = core.fork_call(_pristine_decode, (req['b'], req['mode']), 30.0)
        return c.value if c.status == 'ok' else None
    return handler

def _child(image_hex, ops):
    from . import sim_stream as SS
    srv = [None]
    memo = {}
    def pristine(b, mode, more):
        """Decode of (at most 16) bytes in a PRISTINE process, memoised per run."""
        key = (b.hex(), mode)
        r = memo.get(key)
        if r is None:
            c = srv[0].call({'b': b.hex(), 'mode': mode})
            if c.status != 'ok' or c.value is None:
                return None
            r = memo[key] = tuple(c.value)
        if more and r[0] == 'ok' and r[1] is None:
            return None          # 'absent' on a 16-byte prefix says nothing about the longer suffix
        return r
    use_px = any(op.get('px') for op in ops)
    if use_px:
        srv[0] = core.Servant(_px_factory, 60.0)
    try:
        v, stats = SS.run_ops(bytes.fromhex(image_hex), ops, pristine if use_px else None)
    finally:
        if srv[0] is not None:
            srv[0].kill()
            srv[0].close()
    return {'v': v, 'stats': stats}

def plan(i, seed):
    from . import sim_stream as SS
    rs = core.run_seed('C10', 'stream', i, seed)
    rng = random.Random(rs)
    cfg, image_hex, ops = SS.gen_run(rng)
    return rs, cfg, image_hex, ops

def one_run(i, seed):
    rs, cfg, image_hex, ops = plan(i, seed)
    r = core.fork_call(_child, (image_hex, ops), CHILD_TIMEOUT)
    out = {'run': i, 'seed': rs, 'n': len(ops), 'hh': core.digest([image_hex, ops])[:16]}
    if r.status == 'timeout':
        out['status'] = 'discard'; out['reason'] = 'timeout'; return out
    if r.status != 'ok':
        out['status'] = 'harness'; out['reason'] = str(r.value)[:2000]; return out
    out['status'] = 'violation' if r.value['v'] else 'ok'
    out['stats'] = r.value['stats']
    if r.value['v']:
        out['class'] = r.value['v']['class']
    if i < 2:
        out['sample'] = {'config': cfg, 'image': image_hex, 'ops': ops}
    return out

def confirm(image_hex, ops, cls):
    r = core.fork_call(_child, (image_hex, ops), CHILD_TIMEOUT)
    ok = r.status == 'ok' and r.value['v'] is not None and r.value['v']['class'] == cls
    return ok, r

def minimise(image_hex, ops, cls):
    ops2 = core.ddmin(ops, lambda cand: bool(cand) and confirm(image_hex, cand, cls)[0], 120)
    # shrink the image from the end
    img = bytes.fromhex(image_hex)
    while len(img) > 1:
        cand = img[:len(img) - max(1, len(img) // 4)]
        if confirm(cand.hex(), ops2, cls)[0]:
            img = cand
        else:
            break
    while len(img) > 1 and confirm(img[:-1].hex(), ops2, cls)[0]:
        img = img[:-1]
    return img.hex(), ops2

def merge_stats(total, st):
    for k, v in st.items():
        if isinstance(v, dict):
            d = total.setdefault(k, {})
            for a, b in v.items():
                d[a] = d.get(a, 0) + b
        else:
            total[k] = total.get(k, 0) + v

def main(args):
    core.import_sut()
    if args.replay:
        return replay(args.replay)
    tier = args.tier if args.tier in TIERS else 'quick'
    seed = core.base_seed()
    batch = runner.Batch('C10', tier, seed)
    n = args.runs or TIERS[tier]['runs']
    stop = core.EarlyStop(lambda r: r.get('status') == 'violation')
    total = {}
    hashes, nontrivial = set(), set()
    samples, viol, digests = [], [], []
    agg = {'steps': 0, 'skipped': 0}
    def consume(i, r):
        if r.get('_skipped'):
            agg['skipped'] += 1; return
        if '_harness_error' in r:
            batch.harness_errors.append(r['_harness_error']); return
        if r['status'] == 'harness':
            batch.harness_errors.append(r['reason']); return
        if r['status'] == 'discard':
            batch.discard(r['reason']); return
        # the event log of a run: what was generated (image, ops) and everything the run observed (counters per
        # outcome, fault, cut, read) - not only its verdict
        digests.append([i, r['status'], r.get('class'), r['hh'], core.digest(r['stats'])[:16]])
        merge_stats(total, r['stats'])
        agg['steps'] += r['n']
        hashes.add(r['hh'])
        if r['stats'].get('decode-ok', 0) >= 1 and (r['stats'].get('eof-fired', 0) + r['stats'].get('eio-fired', 0)) >= 1:
            nontrivial.add(r['hh'])
        if 'sample' in r:
            samples.append(r['sample'])
        if r['status'] == 'violation':
            viol.append((i, {'class': r['class']}))
    core.parallel_runs(lambda i: one_run(i, seed), list(range(n)), progress=stop, consume=consume)
    digests.sort()
    viol.sort()
    samples.sort(key=lambda x: json.dumps(x, sort_keys=True))
    steps, skipped = agg['steps'], agg['skipped']
    seen = set()
    for i, r in viol:
        cls = r['class']
        if cls in seen or len(seen) >= 3:
            continue
        seen.add(cls)
        rs, cfg, image_hex, ops = plan(i, seed)
        ok, _ = confirm(image_hex, ops, cls)
        if not ok:
            batch.harness_errors.append('C10 violation of run %d (%s) did not reproduce in a fresh child' % (i, cls))
            continue
        mimg, mops = minimise(image_hex, ops, cls)
        ok, rr = confirm(mimg, mops, cls)
        d = rr.value['v'] if ok else {}
        rec = {'property': 'C10', 'seed': seed, 'run': i, 'run_seed': rs, 'config': cfg, 'class': cls, 'image': mimg, 'ops': mops,
               'schedule': [op['c'] for op in mops], 'faults': [op for op in mops if 'eof' in op or 'eio_at' in op],
               'expected': d.get('detail', {}).get('ref'), 'got': d.get('detail', {}).get('got'), 'detail': d.get('detail'),
               'original_ops': len(ops), 'original_image_len': len(image_hex) // 2}
        path = core.write_replay('C10', rec)
        batch.violations.append({'replay': path, 'class': cls})
    cut_fields = total.pop('cut_fields', {})
    oos = total.pop('out_of_scope', {})
    cov = {
        'evaluations': n - skipped,
        'skipped_after_early_stop': skipped,
        'distinct_histories': len(hashes),
        'distinct_nontrivial': len(nontrivial),
        'rule': ('a run = one seeded byte image (real assembler output + structured random encodings + junk, <= 512 bytes) and 1-3 clients, each '
                 'sweeping / seeking a stream over it through one of the three real back ends (bin_stream_str, bin_stream_file over a fake file, '
                 'bin_stream_virt over a fake address space); every decode is checked for suffix equivalence, recorded offset, stream position, '
                 'returned bytes, over-read (read log), extension invariance and truncation at EVERY length (EOF fault through the same back end); '
                 'EIO is injected into the n-th read. distinct = distinct (image, ops) hash; non-trivial = at least one successful decode and at '
                 'least one fault actually fired'),
        'steps_total': steps,
        'decodes_ok': total.get('decode-ok', 0),
        'decodes_none': total.get('decode-none', 0),
        'faults_fired': {'eof@k (truncated decode)': total.get('eof-fired', 0), 'eof@open (truncate-and-reopen)': total.get('eof-open', 0),
                         'eio@n': total.get('eio-fired', 0), 'start@>=len': total.get('start-beyond-end:ioerror', 0)},
        'pristine_process_crosschecks': total.get('pristine-checked', 0),
        'shared_file_handle_reopens': total.get('handle-reused', 0),
        'cut_position_classes_covered': len(cut_fields),
        'out_of_scope_observations': {'totality defects seen on arbitrary bytes (pure-input clause, not decided here)': oos},
        'samples': samples,
        'log_digest': core.digest(digests),
        'real_components': ['x86_mn._dis, bin_stream_str/_file/_virt, both renderers from ' + core.REPO],
        'stub_components': ['FakeFile (read log, EIO)', 'FakeVirt', 'image generator'],
    }
    assumptions = ['only the stream clauses of C10 are decided; the two totality clauses are pure-input statements and only tallied',
                   'after a failed decode the stream offset is unspecified (the property constrains the successful case only)',
                   'EIO: None or a propagated OSError are both acceptable']
    return batch.finish(cov, assumptions, n)

def replay(path):
    with open(path) as f:
        rec = json.load(f)
    ok, r = confirm(rec['image'], rec['ops'], rec['class'])
    if r.status != 'ok':
        print('HARNESS-ERROR replay did not complete: %s' % (r.value,))
        return 2
    if ok:
        print('VIOLATION property=C10 replay=%s' % path)
        print('  class=%s reproduced=True identical_detail=%s' % (rec['class'], r.value['v'].get('detail') == rec.get('detail')))
        return 1
    print('replay: violation class %s did not occur' % rec['class'])
    return 0
