# C07 driver: symbolic machine state == sequential execution (DESIGN 4.3).
import os, sys, json, random, time
from . import core, runner

TIERS = {'quick': {'small': 4000, 'random': 16000}, 'thorough': {'small': None, 'random': 400000}}
NVAL = 3
CHILD_TIMEOUT = 60.0

def _setup():
    from . import sim_machine as SM, sim_calls as SC
    core.import_sut()
    return SM, SC

def small_indices(seed, n):
    from . import sim_machine as SM
    perm = list(range(SM.SMALL_SPACE))
    random.Random(core.run_seed('C07', 'small-perm', 0, seed)).shuffle(perm)
    return perm if n is None else perm[:n]

def history_for(kind, i, seed):
    """(config, ops, valuations) of run i of stream kind: pure function of the seed."""
    from . import sim_machine as SM
    rs = core.run_seed('C07', kind, i, seed)
    rng = random.Random(rs)
    if kind == 'small':
        ops = SM.shape_from_index(i)
        cfg = {'mode': 'small', 'base': ops[0]['base'], 'nsym': 2, 'shape': i}
    else:
        cfg, ops = SM.gen_history(rng)
    vals = [SM.gen_valuation(rng, cfg['nsym'] + 2) for _ in range(NVAL)]
    return rs, cfg, ops, vals

def _child_check(ops, vals, dense, backing=False, reuse=False):
    from . import sim_machine as SM, sim_calls as SC
    SC.install_budget()
    probes = core.LineProbes(probe_sites())
    probes.start()
    try:
        r = SM.check_history(ops, vals, dense, False, backing, reuse)
    finally:
        probes.stop()
    r['probes_hit'] = sorted(probes.hits)
    return r

_SITES = None
def probe_sites():
    global _SITES
    if _SITES is None:
        want = [
            ('get_mem_overlapping:hit', 'miasmx/expression/expression_eval_abstract.py', 'ov.append((i, self.pool.pool_mem[x][0]))'),
            ('substract_mems:b-before-a', 'miasmx/expression/expression_eval_abstract.py', 'sub_size = b.size + ptr_diff*8'),
            ('substract_mems:tail-kept', 'miasmx/expression/expression_eval_abstract.py', 'out = [(ExprMem(rest_ptr, rest_size), val)]'),
            ('substract_mems:part-X', 'miasmx/expression/expression_eval_abstract.py', 'out.append((ExprMem(a.arg, ptr_diff*8), val))'),
            ('substract_mems:part-Y', 'miasmx/expression/expression_eval_abstract.py', 'out.append((ExprMem(ex, val.get_size()), val))'),
            ('eval_ExprMem:exact', 'miasmx/expression/expression_eval_abstract.py', 'return self.pool[a]'),
            ('eval_ExprMem:overlap-positive', 'miasmx/expression/expression_eval_abstract.py', 'ee = ExprSlice(self.pool[x], 0, m)'),
            ('eval_ExprMem:overlap-negative', 'miasmx/expression/expression_eval_abstract.py', 'ee = ExprSlice(self.pool[x], -off*8, m)'),
            ('eval_ExprMem:missing-slice', 'miasmx/expression/expression_eval_abstract.py', 'out.append((ExprMem(ptr, size = sb-sa), sa, sb))'),
            ('eval_ExprMem:bigger', 'miasmx/expression/expression_eval_abstract.py', 'ptr_index = 0'),
            ('eval_ExprMem:bigger-gap-byte', 'miasmx/expression/expression_eval_abstract.py', 'val = ExprMem(ptr, 8)'),
            ('eval_ExprMem:bigger-partial-last', 'miasmx/expression/expression_eval_abstract.py', 'val = self.pool[v][0:diff_size]'),
            ('eval_ExprMem:part', 'miasmx/expression/expression_eval_abstract.py', 'tmp = expr_simp(ExprSlice(self.pool[tmp], 0, a.size))'),
            ('eval_instr:split-on-write', 'miasmx/expression/expression_eval_abstract.py', 'diff_mem = self.substract_mems(x, op)'),
            ('emul:rep-zero-count', 'miasmx/tools/emul_helper.py', 'if my_ecx.arg ==0:'),
            ('emul:rep-step', 'miasmx/tools/emul_helper.py', 'tsc_inc += 1'),
            ('emul:rep-zf-stop', 'miasmx/tools/emul_helper.py', 'if 0xF3 in l.prefix and my_zf.arg == 0:'),
        ]
        _SITES = {}
        for label, rel, text in want:
            try:
                with open(os.path.join(core.REPO, rel)) as f:
                    for n, line in enumerate(f, 1):
                        if line.strip() == text:
                            _SITES[label] = (rel, n)
                            break
            except OSError:
                pass
    return _SITES

def one_run(kind, i, seed, dense=True):
    from . import sim_machine as SM
    rs, cfg, ops, vals = history_for(kind, i, seed)
    r = core.fork_call(_child_check, (ops, vals, dense, cfg.get('backing') or False, bool(cfg.get('reuse_probes'))), CHILD_TIMEOUT)
    out = {'kind': kind, 'run': i, 'seed': rs, 'mode': cfg['mode'], 'n': len(ops),
           'hh': core.digest(ops)[:16]}
    if r.status == 'timeout':
        out['status'] = 'discard'; out['reason'] = 'timeout'
        return out
    if r.status != 'ok':
        out['status'] = 'harness'; out['reason'] = str(r.value)[:2000]
        return out
    v = r.value
    out['status'] = v['status']
    out['probes_hit'] = v.get('probes_hit', [])
    if v['status'] == 'ok':
        out['probes'] = v['probes']; out['touched'] = v['touched']; out['rep'] = v['rep']; out['oos_getreg'] = v.get('oos_getreg', 0)
        out['ovl'] = SM.overlap_classes(ops)
        acts = {}
        for o in ops:
            if o['op'] in ('snapshot', 'save', 'restore', 'block'):
                acts[o['op']] = acts.get(o['op'], 0) + 1
            if o.get('reuse'):
                acts['same-instruction-object-stepped-again'] = acts.get('same-instruction-object-stepped-again', 0) + 1
        if cfg.get('backing'):
            acts['backing-store:' + ('read-only' if cfg['backing'] == 'read-only' else 'read-write')] = 1
        if cfg.get('reuse_probes'):
            acts['read-back-objects-held-across-history'] = 1
        out['acts'] = acts
    elif v['status'] == 'discard':
        out['reason'] = v['reason']
    else:
        out['class'] = v['class']
        d = dict(v.get('detail', {}))
        d.pop('valuation', None)
        out['detail'] = d
        if cfg['mode'] == 'arith':
            out['status'] = 'tally'
            out['shape'] = [op.get('line', '').split(' ')[0] for op in ops]
            out['ops'] = ops if len(ops) <= 4 else None
    if i < 2 and kind == 'random':
        out['sample'] = {'config': cfg, 'ops': ops}
    return out

def confirm(ops, vals, cls, backing=False, reuse=False):
    r = core.fork_call(_child_check, (ops, vals, True, backing, reuse), CHILD_TIMEOUT)
    return r.status == 'ok' and r.value['status'] == 'violation' and r.value['class'] == cls, r

def minimise(ops, vals, cls, backing=False, reuse=False):
    def test(cand):
        if not cand:
            return False
        ok, _ = confirm(cand, vals, cls, backing, reuse)
        return ok
    ops2 = core.ddmin(ops, test, 150)
    # a single valuation is enough if it still shows the mismatch
    for v in vals:
        ok, _ = confirm(ops2, [v], cls, backing, reuse)
        if ok:
            return ops2, [v]
    return ops2, vals

def main(args):
    SM, SC = _setup()
    if args.replay:
        return replay(args.replay)
    tier = args.tier if args.tier in TIERS else 'quick'
    seed = core.base_seed()
    batch = runner.Batch('C07', tier, seed)
    n_small = TIERS[tier]['small']
    if os.environ.get('VERIF_C07_SMALL'):
        n_small = int(os.environ['VERIF_C07_SMALL'])
    n_rand = args.runs or TIERS[tier]['random']
    small = small_indices(seed, n_small)
    tasks = [('small', i) for i in small] + [('random', i) for i in range(n_rand)]
    stop = core.EarlyStop(lambda r: r.get('status') == 'violation')
    recs = core.parallel_runs(lambda k: one_run(tasks[k][0], tasks[k][1], seed), list(range(len(tasks))), progress=stop)
    hashes, nontrivial = set(), set()
    ovl, probes_hit = {}, {}
    steps = probes = reps = getreg_oos = 0
    tally = {}
    samples = []
    viol = []
    acts_total = {}
    small_done = 0
    modes = {}
    digests = []
    skipped = 0
    for k in sorted(recs):
        r = recs[k]
        if r.get('_skipped'):
            skipped += 1; continue
        if '_harness_error' in r:
            batch.harness_errors.append(r['_harness_error']); continue
        if r['status'] == 'harness':
            batch.harness_errors.append(r['reason']); continue
        modes[r['mode']] = modes.get(r['mode'], 0) + 1
        digests.append([k, r['status'], r.get('class'), r.get('reason'), r.get('hh'), r.get('probes'), r.get('touched'), r.get('probes_hit')])
        for p in r.get('probes_hit', []):
            probes_hit[p] = probes_hit.get(p, 0) + 1
        if r['status'] == 'discard':
            batch.discard(r['mode'] + ':' + r['reason']); continue
        if r['status'] == 'tally':
            key = '%s %s' % (r['class'], ' '.join(sorted(set(r['shape']))))
            t = tally.setdefault(key, {'count': 0, 'sample': None})
            t['count'] += 1
            if t['sample'] is None and r.get('ops'):
                t['sample'] = {'ops': r['ops'], 'detail': r['detail']}
            continue
        if r['status'] == 'violation':
            viol.append((k, r)); continue
        steps += r['n']; probes += r['probes']; reps += r['rep']
        if r.get('oos_getreg'):
            getreg_oos += 1
        hashes.add(r['hh'])
        if r['kind'] == 'small':
            small_done += 1
        if r['touched'] > 0 and r['n'] >= 2:
            nontrivial.add(r['hh'])
        for c in r['ovl']:
            ovl[c] = ovl.get(c, 0) + 1
        for a, n in r.get('acts', {}).items():
            acts_total[a] = acts_total.get(a, 0) + n
        if 'sample' in r:
            samples.append(r['sample'])
    seen = set()
    for k, r in viol:
        cls = r['class']
        if cls in seen or len(seen) >= 3:
            continue
        seen.add(cls)
        rs, cfg, ops, vals = history_for(tasks[k][0], tasks[k][1], seed)
        bk = cfg.get('backing') or False
        ru = bool(cfg.get('reuse_probes'))
        ok, _ = confirm(ops, vals, cls, bk, ru)
        if not ok:
            batch.harness_errors.append('C07 violation of %s run %d (%s) did not reproduce in a fresh child' % (tasks[k][0], tasks[k][1], cls))
            continue
        mops, mvals = minimise(ops, vals, cls, bk, ru)
        ok, rr = confirm(mops, mvals, cls, bk, ru)
        d = rr.value.get('detail', {}) if ok else {}
        rec = {'property': 'C07', 'seed': seed, 'stream': tasks[k][0], 'run': tasks[k][1], 'run_seed': rs, 'config': cfg,
               'class': cls, 'ops': mops, 'valuations': mvals, 'schedule': 'single machine, ops in list order',
               'faults': [], 'expected': d.get('want'), 'got': d.get('got'), 'detail': dict((a, b) for a, b in d.items() if a != 'valuation'),
               'original_ops': len(ops)}
        path = core.write_replay('C07', rec)
        batch.violations.append({'replay': path, 'class': cls})
    total = len(tasks) - skipped
    cov = {
        'evaluations': total,
        'skipped_after_early_stop': skipped,
        'distinct_histories': len(hashes),
        'distinct_nontrivial': len(nontrivial),
        'rule': ('histories = (a) shapes of the small space named by the property (<=2 stores + 1 load, widths 8/16/32, offsets 0..7, constant or '
                 'symbolic base; 28848 shapes) drawn without replacement by a seeded permutation, (b) seeded random histories of 1..12 direct '
                 'stores/loads, state-moving instructions (mov/movzx/movsx/xchg/push/pop/lea) or string programs (cld/std, movs/stos/lods, rep with '
                 'concrete count, repe/repne cmps/scas over concrete bytes). Each is executed by the real machine and by the reference machine under '
                 '%d valuations; all 8 general registers, df (zf after cmps/scas) and read-backs of widths 8/16/32 at every address within 4 bytes of '
                 'a written byte are compared. distinct = distinct op-list hash; non-trivial = >= 2 ops and at least one byte of memory written' % NVAL),
        'small_space_total': SM.SMALL_SPACE,
        'small_space_covered': small_done,
        'exhaustive_small_space': bool(n_small is None and small_done == SM.SMALL_SPACE),
        'steps_total': steps,
        'readbacks_compared': probes,
        'rep_instructions_executed': reps,
        'modes': modes,
        'overlap_classes_covered': len(ovl),
        'overlap_classes': dict(sorted(ovl.items())),
        'probe_lines_hit_runs': dict(sorted(probes_hit.items())),
        'probe_lines_never_hit': sorted(set(probe_sites()) - set(probes_hit)),
        # no storage or network fault exists for a symbolic machine; what the simulator injects are the client's own moves
        # around the machine object (DESIGN 2.5), counted over the histories that decided
        'faults_fired': dict(sorted(acts_total.items())) or {'none': 'no client action drawn in this batch'},
        'out_of_scope_observations': {'arith_mode_mismatches (C05/C06 territory, tallied, never decide)': tally,
                                      'histories where get_reg() disagrees with the (correct) pool value (accessor outside the property, tallied)': getreg_oos},
        'samples': samples,
        'log_digest': core.digest(digests),
        'real_components': ['miasmx eval_abs / emul_helper / expr_simp / assembler / decoder from ' + core.REPO],
        'stub_components': ['reference byte-memory machine and IR evaluator (sim/refmodel.py)', 'valuations, initial memory image PRF'],
    }
    assumptions = ['distinct symbolic bases do not alias (data base init_ebx, stack init_esp and constant addresses are valued >= 2^20 apart): the assumption the machine itself makes',
                   'an ExprMem inside a machine value denotes the initial memory image',
                   'a history on which emulation raises is outside the property and discarded (counted), except rep string instructions with a concrete count',
                   'repe/repne histories where the zero flag is not concrete after some single step (established on a clone with the real single-step emulation) are outside the property',
                   'the reference evaluator gives the IR operators their standard bit-vector meaning']
    return batch.finish(cov, assumptions, total)

def replay(path):
    with open(path) as f:
        rec = json.load(f)
    ok, r = confirm(rec['ops'], rec['valuations'], rec['class'], rec.get('config', {}).get('backing') or False, bool(rec.get('config', {}).get('reuse_probes')))
    if r.status != 'ok':
        print('HARNESS-ERROR replay did not complete: %s' % (r.value,))
        return 2
    if ok:
        d = r.value.get('detail', {})
        same = d.get('want') == rec.get('expected') and d.get('got') == rec.get('got')
        print('VIOLATION property=C07 replay=%s' % path)
        print('  class=%s reproduced=True identical_expected_got=%s' % (rec['class'], same))
        return 1
    print('replay: violation class %s did not occur: %s' % (rec['class'], json.dumps(r.value)[:300]))
    return 0
