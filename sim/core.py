# Deterministic-simulation core for the miasmX checks.
#
# One integer (VERIF_SEED) decides every run; all SUT code is the real code
# imported from $VERIF_REPO (default /repo); every run executes in fork()ed
# pristine copies of the post-import interpreter state.
#
# Harness rules (see DESIGN.md 2.1): no wall clock in any oracle, no use of
# id()/hash()/set order in harness decisions, logging never draws from a PRNG.
import os, sys, json, hashlib, random, select, signal, time, errno, tempfile, \
    shutil, subprocess, struct, traceback, faulthandler

VERIF_DIR = os.path.dirname(os.path.dirname(os.path.abspath(__file__)))
REPO = os.environ.get('VERIF_REPO', '/repo')
PY = sys.executable

# ------------------------------------------------------------------ bootstrap

def reexec_pinned():
    """Pin the harness' own hash seed: one seed = one execution.  The value can
    be overridden (VERIF_HARNESS_HASHSEED) by the determinism self-test, which
    shows that the logs do not depend on it."""
    want = os.environ.get('VERIF_HARNESS_HASHSEED', '0')
    if os.environ.get('PYTHONHASHSEED') != want:
        env = dict(os.environ)
        env['PYTHONHASHSEED'] = want
        env['PYTHONDONTWRITEBYTECODE'] = '1'
        os.execve(PY, [PY] + sys.argv, env)

_WORK = None
_OWN_WORK = False

def workdir():
    global _WORK, _OWN_WORK
    if _WORK is None:
        w = os.environ.get('VERIF_WORK')
        if w:
            os.makedirs(w, exist_ok=True)
            _WORK = w
        else:
            base = '/dev/shm' if os.access('/dev/shm', os.W_OK) else None
            _WORK = tempfile.mkdtemp(prefix='miasmx-verif-', dir=base)
            _OWN_WORK = True
            os.environ['VERIF_WORK'] = _WORK
            import atexit
            owner = os.getpid()
            atexit.register(lambda: cleanup_workdir() if os.getpid() == owner else None)
    return _WORK

def cleanup_workdir():
    global _WORK
    if _WORK and _OWN_WORK and os.path.isdir(_WORK):
        shutil.rmtree(_WORK, ignore_errors=True)
    _WORK = None

PREWARM_SRC = r'''
import sys, os
sys.path.insert(0, %(repo)r)
saved = list(sys.path)
mods = ['miasmx.arch.ia32_arch', 'miasmx.core.parse_ad', 'miasmx.tools.emul_helper']
for attempt in range(8):
    try:
        for m in mods:
            __import__(m)
        break
    except ImportError:
        sys.path[:] = saved
        for k in list(sys.modules):
            if k.startswith('miasmx') or k.startswith('ply'):
                del sys.modules[k]
else:
    sys.exit(3)
sys.path[:] = saved
'''

def prewarm_tmpdir(tmpdir):
    """Populate a private parser-table directory from the tree under test, in a
    throw-away interpreter (the cold-cache path may clobber sys.path: that is
    C12 business and must not reach the harness process)."""
    os.makedirs(tmpdir, exist_ok=True)
    env = dict(os.environ)
    env['TMPDIR'] = tmpdir
    env['PYTHONHASHSEED'] = '0'
    env['PYTHONDONTWRITEBYTECODE'] = '1'
    r = subprocess.run([PY, '-c', PREWARM_SRC % {'repo': REPO}], env=env,
                       stdout=subprocess.DEVNULL, stderr=subprocess.PIPE, timeout=300)
    if r.returncode != 0:
        raise HarnessError('prewarm of parser tables failed: %s' % r.stderr.decode()[-2000:])

_IMPORTED = False

def import_sut():
    """Import every miasmX module of the tree under test into this process
    (importing is not an API call).  sys.path is restored afterwards."""
    global _IMPORTED
    if _IMPORTED:
        return
    w = workdir()
    tmpdir = os.path.join(w, 'tmp')
    prewarm_tmpdir(tmpdir)
    os.environ['TMPDIR'] = tmpdir
    tempfile.tempdir = None
    saved = list(sys.path)
    sys.path.insert(0, REPO)
    import logging
    logging.disable(logging.CRITICAL)
    try:
        import miasmx.arch.ia32_arch
        import miasmx.arch.ia32_att
        import miasmx.arch.ia32_sem
        import miasmx.core.parse_ad
        import miasmx.core.bin_stream
        import miasmx.tools.emul_helper
        import miasmx.expression.expression_eval_abstract
        import miasmx.expression.expression_helper
    finally:
        sys.path[:] = [REPO] + saved
    f = sys.modules['miasmx'].__file__ or ''
    if not os.path.abspath(f).startswith(os.path.abspath(REPO) + os.sep):
        raise HarnessError('miasmx imported from %s, not from %s' % (f, REPO))
    _IMPORTED = True


class HarnessError(Exception):
    pass

# --------------------------------------------------------------------- seeds

def base_seed():
    try:
        return int(os.environ.get('VERIF_SEED', '0'))
    except ValueError:
        return 0

def run_seed(prop, tier_stream, i, seed=None):
    """Per-run seed; tier_stream is a label so that the quick tier is a prefix
    of nothing in particular but every (property, stream, index) is fixed."""
    if seed is None:
        seed = base_seed()
    h = hashlib.sha256(('%d|%s|%s|%d' % (seed, prop, tier_stream, i)).encode()).digest()
    return int.from_bytes(h[:8], 'big')

def digest(obj):
    return hashlib.sha256(json.dumps(obj, sort_keys=True, separators=(',', ':')).encode()).hexdigest()

# ----------------------------------------------------------- forked children

class ChildResult(object):
    __slots__ = ('status', 'value')
    def __init__(self, status, value=None):
        self.status, self.value = status, value   # 'ok' | 'timeout' | 'died'

def _write_all(fd, data):
    view = memoryview(data)
    while view:
        n = os.write(fd, view)
        view = view[n:]

def _read_all(fd, deadline):
    chunks = []
    while True:
        left = deadline - time.monotonic()
        if left <= 0:
            return None
        r, _, _ = select.select([fd], [], [], left)
        if not r:
            return None
        b = os.read(fd, 1 << 16)
        if not b:
            return b''.join(chunks)
        chunks.append(b)

def fork_call(fn, args=(), timeout=60.0):
    """Run fn(*args) in a fork()ed copy of this process; the result must be
    JSON-able.  Wall time never decides a verdict: a timeout is reported as
    such and the caller discards the run."""
    rfd, wfd = os.pipe()
    sys.stdout.flush(); sys.stderr.flush()
    pid = os.fork()
    if pid == 0:
        code = 0
        try:
            os.close(rfd)
            try:
                out = ('ok', fn(*args))
            except BaseException as e:      # harness-side failure inside the child
                out = ('harness-exc', ''.join(traceback.format_exception(type(e), e, e.__traceback__))[-4000:])
            _write_all(wfd, json.dumps(out).encode())
            os.close(wfd)
        except BaseException:
            code = 7
        finally:
            os._exit(code)
    os.close(wfd)
    data = _read_all(rfd, time.monotonic() + timeout)
    os.close(rfd)
    if data is None:
        try:
            os.kill(pid, signal.SIGKILL)
        except OSError:
            pass
        os.waitpid(pid, 0)
        return ChildResult('timeout')
    _, st = os.waitpid(pid, 0)
    if not data:
        return ChildResult('died', st)
    try:
        tag, val = json.loads(data.decode())
    except ValueError:
        return ChildResult('died', 'garbled')
    if tag == 'harness-exc':
        return ChildResult('died', val)
    return ChildResult('ok', val)


class Servant(object):
    """A persistent fork()ed pristine child that executes requests one by one
    (used for the isolated execution of one thread of explicit dependence)."""
    def __init__(self, handler_factory, timeout=60.0):
        self.timeout = timeout
        p2c_r, p2c_w = os.pipe()
        c2p_r, c2p_w = os.pipe()
        sys.stdout.flush(); sys.stderr.flush()
        pid = os.fork()
        if pid == 0:
            try:
                os.close(p2c_w); os.close(c2p_r)
                handler = handler_factory()
                rf = os.fdopen(p2c_r, 'rb')
                while True:
                    hdr = rf.read(4)
                    if len(hdr) < 4:
                        break
                    n = struct.unpack('<I', hdr)[0]
                    req = json.loads(rf.read(n).decode())
                    try:
                        out = ('ok', handler(req))
                    except BaseException as e:
                        out = ('harness-exc', ''.join(traceback.format_exception(type(e), e, e.__traceback__))[-4000:])
                    b = json.dumps(out).encode()
                    _write_all(c2p_w, struct.pack('<I', len(b)) + b)
            finally:
                os._exit(0)
        os.close(p2c_r); os.close(c2p_w)
        self.pid, self.w, self.r = pid, p2c_w, c2p_r
        self.dead = False

    def _read_n(self, n, deadline):
        buf = b''
        while len(buf) < n:
            left = deadline - time.monotonic()
            if left <= 0:
                return None
            r, _, _ = select.select([self.r], [], [], left)
            if not r:
                return None
            b = os.read(self.r, n - len(buf))
            if not b:
                return b''
            buf += b
        return buf

    def call(self, req):
        if self.dead:
            return ChildResult('died', 'servant dead')
        b = json.dumps(req).encode()
        try:
            _write_all(self.w, struct.pack('<I', len(b)) + b)
        except OSError:
            self.dead = True
            return ChildResult('died', 'pipe')
        deadline = time.monotonic() + self.timeout
        hdr = self._read_n(4, deadline)
        if hdr is None:
            self.kill()
            return ChildResult('timeout')
        if len(hdr) < 4:
            self.dead = True
            return ChildResult('died', 'eof')
        n = struct.unpack('<I', hdr)[0]
        body = self._read_n(n, deadline)
        if body is None:
            self.kill()
            return ChildResult('timeout')
        if len(body) < n:
            self.dead = True
            return ChildResult('died', 'eof')
        tag, val = json.loads(body.decode())
        if tag == 'harness-exc':
            return ChildResult('died', val)
        return ChildResult('ok', val)

    def kill(self):
        if not self.dead:
            try:
                os.kill(self.pid, signal.SIGKILL)
            except OSError:
                pass
        self.dead = True

    def close(self):
        for fd in (self.w, self.r):
            try:
                os.close(fd)
            except OSError:
                pass
        if self.dead:
            try:
                os.waitpid(self.pid, 0)
            except OSError:
                pass
        else:
            try:
                os.waitpid(self.pid, 0)
            except OSError:
                pass
            self.dead = True

# ------------------------------------------------------------- worker pool

def nworkers():
    try:
        return max(1, int(os.environ.get('VERIF_WORKERS', '0')) or (os.cpu_count() or 1))
    except ValueError:
        return os.cpu_count() or 1

class EarlyStop(object):
    """Stops handing out new runs once enough NEW violations were collected (a
    broken tree violates in a large share of the runs; minimising three of them
    is all a report needs).  Never triggers on a tree where the property holds."""
    def __init__(self, is_violation, limit=25):
        self.path = os.path.join(workdir(), 'stop-%d-%d' % (os.getpid(), id(self)))
        self.is_violation, self.limit, self.count = is_violation, limit, 0
    def __call__(self, i, rec):
        try:
            if self.is_violation(rec):
                self.count += 1
                if self.count == self.limit:
                    open(self.path, 'w').close()
        except Exception:
            pass

def parallel_runs(fn, indices, workers=None, wall_limit=None, progress=None, consume=None):
    """Execute fn(i) for every i in indices in `workers` forked workers with a
    static assignment (position mod W), so the set of executions does not depend
    on W.  fn must return a JSON-able record.  Returns {i: record}.  A worker
    that dies is a harness error.  wall_limit (seconds) stops handing out new
    runs -- it only shrinks the explored set, it never changes a verdict."""
    W = workers or nworkers()
    W = max(1, min(W, len(indices))) if indices else 1
    stop_path = getattr(progress, 'path', None)
    procs = []
    t0 = time.monotonic()
    sys.stdout.flush(); sys.stderr.flush()
    for w in range(W):
        rfd, wfd = os.pipe()
        pid = os.fork()
        if pid == 0:
            code = 0
            try:
                os.close(rfd)
                for (_, r, _) in procs:
                    try: os.close(r)
                    except OSError: pass
                faulthandler.enable()
                dn = os.open(os.devnull, os.O_WRONLY)
                os.dup2(dn, 1)          # the SUT's lexers print(); results travel by pipe
                mine = indices[w::W]
                for i in mine:
                    if (wall_limit is not None and time.monotonic() - t0 > wall_limit) or \
                            (stop_path is not None and os.path.exists(stop_path)):
                        rec = {'_skipped': True}
                    else:
                        try:
                            rec = fn(i)
                        except BaseException as e:
                            rec = {'_harness_error': ''.join(traceback.format_exception(type(e), e, e.__traceback__))[-6000:]}
                    b = json.dumps([i, rec]).encode()
                    _write_all(wfd, struct.pack('<I', len(b)) + b)
                os.close(wfd)
            except BaseException:
                traceback.print_exc()
                code = 9
            finally:
                os._exit(code)
        os.close(wfd)
        procs.append((pid, rfd, bytearray()))
    out = {}
    done = [0]
    open_fds = {rfd: k for k, (pid, rfd, buf) in enumerate(procs)}
    while open_fds:
        r, _, _ = select.select(list(open_fds), [], [], 5.0)
        for fd in r:
            k = open_fds[fd]
            b = os.read(fd, 1 << 20)
            buf = procs[k][2]
            if not b:
                del open_fds[fd]
                os.close(fd)
                continue
            buf += b
            while len(buf) >= 4:
                n = struct.unpack('<I', bytes(buf[:4]))[0]
                if len(buf) < 4 + n:
                    break
                i, rec = json.loads(bytes(buf[4:4 + n]).decode())
                del buf[:4 + n]
                done[0] += 1
                if os.environ.get('VERIF_PROGRESS') and done[0] % max(1, len(indices) // 20) == 0:
                    sys.stderr.write('[progress] %d/%d runs, %.0fs\n' % (done[0], len(indices), time.monotonic() - t0))
                    sys.stderr.flush()
                if consume is not None:
                    consume(i, rec)         # streaming aggregation: the record is not kept
                    out[i] = True
                else:
                    out[i] = rec
                if progress:
                    progress(i, rec)
    bad = []
    for pid, rfd, buf in procs:
        _, st = os.waitpid(pid, 0)
        if st != 0:
            bad.append(st)
    missing = [i for i in indices if i not in out]
    if bad or missing:
        raise HarnessError('worker(s) died: statuses=%r missing=%d' % (bad, len(missing)))
    return out

# ---------------------------------------------------------------- ddmin

def ddmin(items, test, max_tests=400):
    """Classic delta debugging on a list: returns a 1-minimal sublist (w.r.t.
    chunk removal) for which test(sublist) is still True.  test is only called
    on candidates; the caller guarantees test(items) is True."""
    n = 2
    tests = 0
    items = list(items)
    while len(items) >= 2:
        chunk = max(1, len(items) // n)
        subsets = [items[i:i + chunk] for i in range(0, len(items), chunk)]
        reduced = False
        for k in range(len(subsets)):
            cand = [x for j, s in enumerate(subsets) if j != k for x in s]
            tests += 1
            if tests > max_tests:
                return items
            if cand and test(cand):
                items = cand
                n = max(n - 1, 2)
                reduced = True
                break
        if not reduced:
            if n >= len(items):
                break
            n = min(len(items), n * 2)
    if len(items) == 1:
        pass
    return items

# ------------------------------------------------------------ line probes

class LineProbes(object):
    """'This rare condition was hit' probes on anchored source lines, using
    sys.monitoring LINE events that disable themselves after the first hit."""
    TOOL = 3
    def __init__(self, sites):
        # sites: {label: (path suffix, line number)}
        self.sites = sites
        self.hits = {}
        self.by_code = {}
    def start(self):
        mon = sys.monitoring
        try:
            mon.use_tool_id(self.TOOL, 'verif-probes')
        except ValueError:
            pass
        want = {}
        for label, (suffix, line) in self.sites.items():
            want.setdefault(suffix, {})[line] = label
        self.want = want
        def on_line(code, line):
            fn = code.co_filename
            for suffix, lines in want.items():
                if fn.endswith(suffix):
                    lab = lines.get(line)
                    if lab is not None:
                        self.hits[lab] = self.hits.get(lab, 0) + 1
                    break
            return mon.DISABLE
        mon.register_callback(self.TOOL, mon.events.LINE, on_line)
        mon.set_events(self.TOOL, mon.events.LINE)
    def stop(self):
        mon = sys.monitoring
        try:
            mon.set_events(self.TOOL, 0)
            mon.register_callback(self.TOOL, mon.events.LINE, None)
            mon.free_tool_id(self.TOOL)
        except Exception:
            pass

# ------------------------------------------------------------ output protocol

def load_known_findings():
    p = os.path.join(VERIF_DIR, 'known_findings.json')
    if not os.path.exists(p):
        return {'findings': [], 'fixed': []}
    with open(p) as f:
        return json.load(f)

def write_replay(prop, rec):
    d = os.path.join(os.environ.get('VERIF_REPLAY_DIR') or os.path.join(VERIF_DIR, 'replays'), prop)
    os.makedirs(d, exist_ok=True)
    body = json.dumps(rec, sort_keys=True, indent=1)
    name = hashlib.sha256(body.encode()).hexdigest()[:12] + '.json'
    p = os.path.join(d, name)
    with open(p, 'w') as f:
        f.write(body + '\n')
    return p

def write_evidence(prop, tier, seed, coverage, wall_s, violations, assumptions):
    d = os.environ.get('VERIF_EVIDENCE_DIR') or os.path.join(VERIF_DIR, 'evidence')
    os.makedirs(d, exist_ok=True)
    ev = {'property_id': prop, 'tier': tier, 'seed': seed, 'level': 'exploration',
          'coverage': coverage, 'assumptions': assumptions,
          'wall_s': round(wall_s, 2), 'violations': violations}
    tmp = os.path.join(d, '.%s.json.tmp' % prop)
    with open(tmp, 'w') as f:
        json.dump(ev, f, indent=1, sort_keys=True)
        f.write('\n')
    os.replace(tmp, os.path.join(d, '%s.json' % prop))
    return ev

def repo_state():
    """Identify the tree under test (informational, goes into the evidence)."""
    try:
        head = subprocess.run(['git', '-C', REPO, 'rev-parse', 'HEAD'], capture_output=True, text=True, timeout=20).stdout.strip()
        dirty = subprocess.run(['git', '-C', REPO, 'status', '--porcelain', '--untracked-files=no'], capture_output=True, text=True, timeout=20).stdout.strip()
        return {'repo': REPO, 'head': head, 'dirty': bool(dirty)}
    except Exception:
        return {'repo': REPO}
