# Canonical (structural) serialisation of miasmX values.  Never uses str() of an
# expression (drops widths), never uses == (the thing under test), never
# looks at memo flags (is_eval, simp, is_simp).  is_term is structure: it is a
# constructor argument of ExprId and the code uses it to give an ExprMem the
# meaning "cell of the initial memory".
import binascii

def _mods():
    from miasmx.expression import expression as E
    from miasmx.tools import modint as MI
    return E, MI

def ser_int(v):
    E, MI = _mods()
    if isinstance(v, MI.moduint):
        return ['mi', v.__class__.__name__, int(v.arg)]
    if isinstance(v, bool):
        return ['b', v]
    if isinstance(v, int):
        return ['i', v]
    raise TypeError('not an int-like: %r' % (v,))

def ser_expr(e):
    E, MI = _mods()
    c = e.__class__
    if c is E.ExprInt:
        a = e.arg
        if isinstance(a, MI.moduint):
            return ['I', a.__class__.__name__, int(a.arg)]
        return ['I', 'py:' + type(a).__name__, repr(a)]
    if c is E.ExprId:
        return ['D', e.name, e.size, bool(e.is_term), bool(e.is_reg)]
    if c is E.ExprMem:
        return ['M', ser_expr(e.arg), e.size,
                ser_expr(e.segm) if isinstance(e.segm, E.Expr) else (None if e.segm is None else ['raw', repr(e.segm)]),
                bool(e.is_term)]
    if c is E.ExprOp:
        return ['O', e.op, [ser_expr(a) for a in e.args]]
    if c is E.ExprSlice:
        return ['S', ser_expr(e.arg), e.start, e.stop]
    if c is E.ExprCompose:
        return ['C', [[ser_expr(a[0]), a[1], a[2]] for a in e.args]]
    if c is E.ExprCond:
        return ['?', ser_expr(e.cond), ser_expr(e.src1), ser_expr(e.src2)]
    if c is E.ExprAff:
        return ['=', ser_expr(e.dst), ser_expr(e.src)]
    if c is E.ExprTop:
        return ['T']
    raise TypeError('not an expression: %r' % (e,))

def deser_expr(s, regs=None):
    """Build a FRESH object tree from a serialisation.  If regs is given
    (name -> module-level singleton), identifiers that are structurally the
    singleton are replaced by it (that is how every client obtains registers)."""
    E, MI = _mods()
    t = s[0]
    if t == 'I':
        return E.ExprInt(getattr(MI, s[1])(s[2]))
    if t == 'D':
        if regs is not None:
            r = regs.get(s[1])
            if r is not None and r.size == s[2] and bool(r.is_term) == s[3] and bool(r.is_reg) == s[4]:
                return r
        return E.ExprId(s[1], size=s[2], is_term=s[3], is_reg=s[4])
    if t == 'M':
        segm = deser_expr(s[3], regs) if (s[3] is not None and s[3][0] != 'raw') else None
        m = E.ExprMem(deser_expr(s[1], regs), s[2], segm)
        if s[4]:
            m.is_term = True
        return m
    if t == 'O':
        return E.ExprOp(s[1], *[deser_expr(a, regs) for a in s[2]])
    if t == 'S':
        return E.ExprSlice(deser_expr(s[1], regs), s[2], s[3])
    if t == 'C':
        return E.ExprCompose([(deser_expr(a[0], regs), a[1], a[2]) for a in s[1]])
    if t == '?':
        return E.ExprCond(deser_expr(s[1], regs), deser_expr(s[2], regs), deser_expr(s[3], regs))
    if t == '=':
        return E.ExprAff(deser_expr(s[1], regs), deser_expr(s[2], regs))
    raise ValueError('bad serialisation %r' % (s,))

MEMO_FLAGS = ('is_eval', 'simp')

def ser_flags(e):
    """Memo flags attached to the nodes of a RESULT object by the call that
    produced it (instance attributes only), as a tree parallel to ser_expr.
    Used only to hand a result to a later call 'as the producer returned it';
    never compared.  Module-level singletons are not recorded (their flags are
    process-global state, the thing under test)."""
    E, MI = _mods()
    d = getattr(e, '__dict__', {})
    own = [f for f in MEMO_FLAGS if d.get(f)]
    c = e.__class__
    if c is E.ExprId or c is E.ExprInt:
        return [own if c is E.ExprInt else [], []]
    if c is E.ExprMem:
        kids = [ser_flags(e.arg)]
    elif c is E.ExprOp:
        kids = [ser_flags(a) for a in e.args]
    elif c is E.ExprSlice:
        kids = [ser_flags(e.arg)]
    elif c is E.ExprCompose:
        kids = [ser_flags(a[0]) for a in e.args]
    elif c is E.ExprCond:
        kids = [ser_flags(e.cond), ser_flags(e.src1), ser_flags(e.src2)]
    elif c is E.ExprAff:
        kids = [ser_flags(e.dst), ser_flags(e.src)]
    else:
        kids = []
    return [own, kids]

def apply_flags(e, fl):
    E, MI = _mods()
    c = e.__class__
    if c is E.ExprId:
        return
    for f in fl[0]:
        setattr(e, f, True)
    if c is E.ExprMem:
        kids = [e.arg]
    elif c is E.ExprOp:
        kids = list(e.args)
    elif c is E.ExprSlice:
        kids = [e.arg]
    elif c is E.ExprCompose:
        kids = [a[0] for a in e.args]
    elif c is E.ExprCond:
        kids = [e.cond, e.src1, e.src2]
    elif c is E.ExprAff:
        kids = [e.dst, e.src]
    else:
        kids = []
    for k, f in zip(kids, fl[1]):
        apply_flags(k, f)

def deser_expr_interned(s, regs=None, table=None):
    """Like deser_expr, but structurally equal sub-trees become ONE shared object."""
    import json
    if table is None:
        table = {}
    k = json.dumps(s)
    o = table.get(k)
    if o is not None:
        return o
    E, MI = _mods()
    t = s[0]
    if t in ('I', 'D'):
        o = deser_expr(s, regs)
    elif t == 'M':
        segm = deser_expr_interned(s[3], regs, table) if (s[3] is not None and s[3][0] != 'raw') else None
        o = E.ExprMem(deser_expr_interned(s[1], regs, table), s[2], segm)
        if s[4]:
            o.is_term = True
    elif t == 'O':
        o = E.ExprOp(s[1], *[deser_expr_interned(a, regs, table) for a in s[2]])
    elif t == 'S':
        o = E.ExprSlice(deser_expr_interned(s[1], regs, table), s[2], s[3])
    elif t == 'C':
        o = E.ExprCompose([(deser_expr_interned(a[0], regs, table), a[1], a[2]) for a in s[1]])
    elif t == '?':
        o = E.ExprCond(*[deser_expr_interned(x, regs, table) for x in s[1:4]])
    elif t == '=':
        o = E.ExprAff(deser_expr_interned(s[1], regs, table), deser_expr_interned(s[2], regs, table))
    else:
        raise ValueError('bad serialisation %r' % (s,))
    table[k] = o
    return o

def _key(x):
    import json
    return json.dumps(x, sort_keys=True)

def ser_val(v):
    """Generic canonical form of the plain data miasmX hands around (operand
    dictionaries, lists, modints, bytes, expressions, mnemonic rows)."""
    E, MI = _mods()
    if v is None or isinstance(v, (bool, str)):
        return v
    if isinstance(v, int):
        return v
    if isinstance(v, float):
        return ['f', repr(v)]
    if isinstance(v, (bytes, bytearray)):
        return ['hex', binascii.hexlify(bytes(v)).decode()]
    if isinstance(v, MI.moduint):
        return ['mi', v.__class__.__name__, int(v.arg)]
    if isinstance(v, E.Expr):
        return ['expr', ser_expr(v)]
    if isinstance(v, dict):
        items = [[ser_val(k), ser_val(x)] for k, x in v.items()]
        items.sort(key=_key)
        return ['dict', items]
    if isinstance(v, (list, tuple)):
        return ['list' if isinstance(v, list) else 'tuple', [ser_val(x) for x in v]]
    if isinstance(v, (set, frozenset)):
        items = [ser_val(x) for x in v]
        items.sort(key=_key)
        return ['set', items]
    cn = v.__class__.__name__
    if cn == 'mnemonic':
        return ['mnemonic', v.name, ser_val(v.opc), ser_val(v.afs), ser_val(v.rm),
                ser_val(v.modifs), ser_val(getattr(v, 'modifs_orig', None))]
    if isinstance(v, type):
        return ['type', v.__name__]
    if callable(v):
        return ['callable', getattr(v, '__name__', cn)]
    return ['obj', cn, ser_val(getattr(v, '__dict__', None))]

INSTR_SLOTS_IN = ('opmode', 'admode', 'mnemo_mode', 'prefix', 'arg', 'offset', 'l', 'b')

def ser_instr_input(i):
    """The parts of an instruction object that are inputs (arg_expr and cmt are
    documented outputs of lifting / special_opcodes)."""
    out = {}
    for s in INSTR_SLOTS_IN:
        out[s] = ser_val(getattr(i, s)) if hasattr(i, s) else 'UNSET'
    out['m'] = ser_val(i.m) if hasattr(i, 'm') else 'UNSET'
    return out

def render(i, fmt=None):
    try:
        if fmt is None:
            return str(i)
        return i.__str__(fmt)
    except Exception as e:
        return ['EXC', type(e).__name__]

def ser_instr(i):
    if i is None:
        return None
    out = ser_instr_input(i)
    out['intel'] = render(i)
    out['att'] = render(i, 'att_syntax')
    return out

def ser_machine(m):
    ids = [[ser_expr(k), ser_expr(v)] for k, v in m.pool.pool_id.items()]
    ids.sort(key=_key)
    mems = [[ser_expr(k), ser_expr(v[0]), ser_expr(v[1])] for k, v in m.pool.pool_mem.items()]
    mems.sort(key=_key)
    return {'id': ids, 'mem': mems}

def exc_tag(e):
    return ['EXC', type(e).__name__]
