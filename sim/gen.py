# Seeded generators shared by the engines.  Everything is a JSON-able recipe;
# objects are built from recipes by the engines so that the same input can be
# built fresh or taken from a shared pool.
import random

# ---------------------------------------------------------------- byte pool
# Small on purpose: collisions between clients must be frequent.
BYTES_POOL = [
    '90', 'c3', 'd3e0', 'd3f8', 'd3eb', 'd2e0', 'ec', 'ed', 'ee', 'ef', 'dfe0', '9bdfe0',
    'a4', 'a5', 'f3a4', 'f3a5', 'f3ab', 'f3aa', 'f2ae', 'f3a6', 'f3a7', 'f3af', 'ac', 'ad', 'aa', 'ab', 'ae', 'a6',
    '89d8', '8b4304', '894304', '884305', '668b4302', '66894302', '0fb64301', '0fbe4301', '0fb74302',
    '50', '53', '5b', '59', '8f4308', 'ff7304', '6a05', '6805000000', '8d440b04', '8d4304',
    '93', '874304', '87d9', '01d8', '29d8', '31c0', '31db', '83c004', '83e804', 'f7d8', 'f7d0', 'f7e3', 'f7f3', 'f7fb',
    '0fafc3', 'c1e004', 'd1e0', 'c1f804', '0fa4d804', '0facd804', 'fc', 'fd', 'f8', 'f9', 'f5', '9c', '9d', '60', '61', 'c9',
    'b805000000', 'b900000000', 'b903000000', 'bf00100000', 'be00200000', 'bb00300000', 'b0ff', 'b4ff', '66b80100',
    '0f31', '0fa2', 'd8c1', 'dbe9', 'd9e8', 'dec1', 'd94304', 'dd5b08', '660f6fc1', '0f6fc1', '0f10c1', '660fefc0',
    'e900000000', 'eb02', '7402', '7504', 'e800000000', 'ffe0', 'ffd0', 'ff2504000000', 'cd80', 'cc', 'f4', 'c20400',
    '8ed8', '8cd8', '648b0500000000', '268b03', '6690', '0f0b', '3effe0', 'f30f1efb',
    'a100100000', 'a300100000', 'c7430401000000', 'c6430501', '66c743020100', '8b03', '8903', '8a03', '8803',
    '8b0424', '890424', '8b442404', '89442404', '884c2405', '8b4c2403', '668b4c2401', '66895c2402',
    '39d8', '85c0', '3c05', '0f94c0', '0f44c3', '98', '99', '6698', '0fc8', '0fa3d8', '0fbcc3', '0fbdc3',
    '11d8', '19d8', 'd1d0', 'd1d8', 'c0c003', 'c1c803', '37', '3f', 'd40a', 'd50a', '27', '2f', 'd7', '9e', '9f',
    '0fb1cb', '0fc1c3', 'f00fc14304', 'e2fe', 'e302',
]
# not decodable / truncated / empty: the "call raises or returns None" faults
BYTES_BAD = ['', 'ff', '0f', '66', '0fff', 'd6', 'f1', '8b', '8b44', 'c74304', 'e900', '0f38', 'f3', '6766', 'c5', '0f0f', 'dbff', '8f']

def gen_random_bytes(rng):
    """Structured random encoding: prefix* opcode modrm [sib] [disp] [imm]."""
    out = []
    for _ in range(rng.choice([0, 0, 0, 1, 1, 2])):
        out.append(rng.choice([0x66, 0x67, 0xf2, 0xf3, 0xf0, 0x2e, 0x36, 0x3e, 0x26, 0x64, 0x65]))
    k = rng.random()
    if k < 0.7:
        out.append(rng.randrange(256))
    elif k < 0.95:
        out += [0x0f, rng.randrange(256)]
    else:
        out += [0x0f, rng.choice([0x38, 0x3a]), rng.randrange(256)]
    for _ in range(rng.randrange(0, 9)):
        out.append(rng.choice([0, 1, 4, 5, 0x24, 0x25, 0x40, 0x43, 0x44, 0x80, 0x84, 0xc0, 0xc1, 0xd8, 0xe0, 0xff, rng.randrange(256)]))
    return bytes(out).hex()

# ---------------------------------------------------------------- line pools
INTEL_LINES = [
    'nop', 'ret', 'ret 4', 'mov eax, ebx', 'mov eax, 5', 'mov ax, 0', 'mov al, 1', 'mov ah, bl',
    'mov eax, DWORD PTR [ebx+4]', 'mov DWORD PTR [ebx+4], eax', 'mov BYTE PTR [ebx+5], al',
    'mov ax, WORD PTR [ebx+2]', 'mov WORD PTR [ebx+2], ax', 'mov BYTE PTR [ebp], 2', 'mov BYTE PTR [ebp-9], -2',
    'mov DWORD PTR [esp+20], 0', 'mov eax, DWORD PTR [eax+edx]', 'mov eax, DWORD PTR [esp+16+eax*4]',
    'mov eax, dword ptr gs:20', 'mov eax, DWORD PTR 8[ebp]', 'mov eax, DWORD PTR -8[ebp]',
    'movzx eax, BYTE PTR [ebp+ebx]', 'movsx eax, al', 'movsx si, BYTE PTR [edx+1]', 'movzx eax, word ptr [2*eax+0]',
    'lea ecx, [eax+132]', 'lea ecx, [edx+eax+12]', 'lea ebx, [0+eax*4]', 'lea esi, [esi]',
    'push eax', 'push 0', 'push es', 'push dword ptr 20', 'pop ebx', 'pop DWORD PTR [edi+eax+303459835]',
    'xchg eax, edx', 'xchg edx, eax', 'xchg eax, ebx', 'add eax, ebx', 'add DWORD PTR [ebp-4], 66', 'sub eax, -145739803',
    'and BYTE PTR [eax], 0x10', 'and DWORD PTR [eax], 0x10', 'or ah, 128', 'or dl, -42', 'xor edx, 128', 'xor eax, eax',
    'cmp al, -66', 'cmp al, 166', 'cmp ax, 17', 'cmp eax, -1', 'cmp eax, 255', 'cmp eax, DWORD PTR [ecx+edx+4]',
    'test al, 120', 'test al, -120', 'test dl, BYTE PTR[ebp-92]', 'sal eax, 1', 'sal eax, cl', 'sar eax, 1', 'sar eax, cl', 'sar eax',
    'shr eax, 1', 'shr eax, cl', 'shr edx, 0x0000001F', 'shld edi, ebp, 1', 'shrd edi, ebp, 1', 'imul eax, eax, 0x000000C8',
    'sete al', 'sete BYTE PTR [esp+31]', 'stc', 'cbw', 'cwd', 'cwde', 'aaa', 'aad', 'aam 10', 'aas',
    'movsb', 'movsw', 'movsd', 'stosb', 'scasb', 'cmpsb', 'rep movsd', 'repnz scasb', 'in al, dx',
    'jmp eax', 'notrack jmp eax', 'jmp 2', 'jg 2', 'jne 0x0000001F', 'call [DWORD PTR [esp+16+eax*4]]', 'callf eax',
    'fadd st, st(0)', 'fadd st0, st1', 'fadd DWORD PTR [esp+56]', 'fadd QWORD PTR [esp+56]', 'faddp st(1), st', 'fchs',
    'fld st(0)', 'fld DWORD PTR [esp+732]', 'fld QWORD PTR [esp+8]', 'fstp QWORD PTR[esp]', 'fstp TBYTE PTR [ebp-92]',
    'fnstsw ax', 'fnstsw', 'fnstcw WORD PTR[eax]', 'fucomip st, st(1)', 'fxam', 'frndint', 'fnop',
    'movaps XMMWORD PTR [ebx+148], xmm1', 'movd eax, xmm1', 'movq mm0, mm1', 'movq xmm0, xmm1', 'paddd xmm0, xmm1',
    'pshufd xmm0, xmm0, 0', 'psrld xmm1, 1', 'xorps xmm0, xmm0', 'cvtsi2sd xmm0, ecx', 'pextrw eax, xmm0, 0',
    'lock xadd DWORD PTR [eax+8], edx', 'xadd DWORD PTR [eax+8], edx', 'prefetcht0 [ebx+64]', 'pause', 'endbr32',
    'mov eax, OFFSET FLAT:.LC0', 'mov eax, .LC0-.LC1', 'lea eax, .LC0@GOTOFF[ebx]', 'mov DWORD PTR sp@GOTOFF[ebx], eax',
    'jz .LC0', 'mov eax, DWORD PTR A[0+eax*4]', 'lea edi, toto[eax+1512]',
]
INTEL_BAD = [
    'mov eax, ebx ]', 'foo eax', 'mov eax,,', 'mov [eax', 'mov eax ebx', '', 'rep', 'mov eax, [ebx+]', 'push $',
    'mov eax, DWORD PTR', 'mov eax, ebx, ecx, edx', ']', 'mov eax, (', 'lea eax, [eax*3*3]', 'mov eax, 0x', 'mov @, eax',
    'add', 'mov st(9), eax', 'mov eax, PTR PTR', 'jmp ][',
]
ATT_LINES = [
    'nop', 'ret', 'ret $4', 'movl %ebx, %eax', 'movl $5, %eax', 'movw $0, %ax', 'movb $1, %al',
    'movl 4(%ebx), %eax', 'movl %eax, 4(%ebx)', 'movb %al, 5(%ebx)', 'movw 2(%ebx), %ax', 'movb $2, (%ebp)',
    'movb $254, (%ebp)', 'movl (%eax,%edx), %eax', 'movl 16(%esp,%eax,4), %eax', 'movl %gs:20, %eax',
    'movzbl (%ebp,%ebx), %eax', 'movsbl %al, %eax', 'leal 132(%eax), %ecx', 'leal (,%eax,4), %ebx',
    'pushl %eax', 'pushl $0', 'popl %ebx', 'xchgl %ebx, %eax', 'addl $2, %ecx', 'subl $2, %ecx', 'adcl $2, %ecx',
    'negl %ecx', 'xorl %edx, %edx', 'xaddl %edx, %ecx', 'notl %edx', 'rorl %cl, %eax', 'roll $6, %eax', 'sbbl $-1, %ebx',
    'orl %edx, %eax', 'andl %edx, %eax', 'cmpb $-66, %al', 'cmpl $255, %eax', 'testb $120, %al', 'sall %cl, %eax', 'sarl %eax',
    'shrl $31, %edx', 'sete %al', 'stc', 'cwtl', 'cltd', 'movsb', 'movsl', 'stosb', 'scasb', 'rep movsl', 'repnz scasb',
    'in %dx, %al', 'jmp *%eax', 'notrack jmp *%eax', 'jmp 2', 'jg 2', 'call *16(%esp,%eax,4)',
    'fadd %st(1), %st', 'fdiv %st, %st(2)', 'fdivr %st, %st(2)', 'fsub %st, %st(2)', 'fsubr %st, %st(2)', 'fdivl 32(%esi)',
    'fsubl 32(%esi)', 'fmul %st, %st(2)', 'fmull 32(%esi)', 'fmulp %st(1), %st', 'fnstsw %ax', 'fldenv (%eax)', 'flds 732(%esp)',
    'pslldq $4, %xmm3', 'psrld $1, %xmm1', 'movd %xmm1, %eax', 'movq %mm1, %mm0', 'paddd %xmm1, %xmm0', 'pause', 'endbr32',
    'movl $.LC0, %eax', 'movl $.LC0+4, %eax', 'movl .LC0(%ebx), %eax', 'leal .LC0@GOTOFF(%ebx), %eax', 'jz .LC0',
    'lock xaddl %edx, 8(%eax)', 'pushw $0', 'push %es', 'nop %cs:(%eax,%eax)',
]
ATT_BAD = [
    'movl %eax', 'movl %eax, %ebx, %ecx, %edx', 'movl (%eax', 'foo %eax', 'movl $, %eax', '', 'movl %eax %ebx',
    'movl %zzz, %eax', 'movl 4(%ebx, %eax', ')', 'movl $$5, %eax', 'leal (,,), %eax', 'movl *, %eax', 'jmp **%eax',
    'movl %st(9), %eax', 'addl',
]

# ---------------------------------------------------------- expression recipes
# Recipes are canonical serialisations (see canon.ser_expr); registers are
# recipes whose ExprId is structurally a module-level singleton of ia32_sem.
REGS32 = ['eax', 'ebx', 'ecx', 'edx', 'esi', 'edi', 'esp', 'ebp']
FLAGS = ['zf', 'nf', 'pf', 'of', 'cf', 'df', 'af']
INITS32 = ['init_' + r for r in REGS32]

def r_reg(name):
    if name in FLAGS:
        return ['D', name, 32, False, True]      # patched below by engines using real sizes
    return ['D', name, 32, False, True]

def r_int(v, size=32):
    return ['I', 'uint%d' % size, v & ((1 << size) - 1)]

BOUNDARY = [0, 1, 2, 3, 4, 7, 8, 0xff, 0x100, 0x7fffffff, 0x80000000, 0xffffffff, 0xfffffffc, 0x1000, 0x2000]

def gen_int(rng, size=32):
    if rng.random() < 0.6:
        v = rng.choice(BOUNDARY)
    else:
        v = rng.getrandbits(size)
    return r_int(v, size)

def gen_leaf(rng, ids, size=32):
    k = rng.random()
    if size != 32:
        if k < 0.5:
            return gen_int(rng, size)
        src = gen_leaf(rng, ids, 32)
        if src[0] == 'I':
            return gen_int(rng, size)
        start = rng.choice([0, 8, 16] if size == 8 else [0, 16] if size == 16 else [0])
        return ['S', src, start, start + size]
    if k < 0.45:
        return rng.choice(ids)
    if k < 0.75:
        return gen_int(rng, 32)
    if k < 0.9:
        base = rng.choice(ids)
        if rng.random() < 0.7:
            addr = ['O', '+', [base, r_int(rng.choice([0, 1, 2, 3, 4, 5, 8, 0xfffffffc]))]]
        else:
            addr = base
        return ['M', addr, 32, None, False]
    return ['D', rng.choice(['x', 'y', 'z']), 32, False, False]

def gen_expr(rng, ids, depth=3, size=32):
    if depth <= 0 or rng.random() < 0.25:
        return gen_leaf(rng, ids, size)
    if size != 32:
        src = gen_expr(rng, ids, depth - 1, 32)
        start = rng.choice([0, 8, 16, 24] if size == 8 else [0, 16] if size == 16 else [0])
        return ['S', src, start, start + size]
    k = rng.random()
    if k < 0.45:
        op = rng.choice(['+', '+', '+', '^', '&', '|', '*'])
        n = rng.choice([2, 2, 2, 3])
        return ['O', op, [gen_expr(rng, ids, depth - 1) for _ in range(n)]]
    if k < 0.55:
        return ['O', '-', [gen_expr(rng, ids, depth - 1)]]
    if k < 0.65:
        op = rng.choice(['<<', '>>', 'a>>', '<<<', '>>>'])
        # shifted operand anchored on an identifier (a constant one makes the
        # simplifier build a gigantic integer: C05 termination, not our business)
        inner = rng.choice(ids)
        if rng.random() < 0.5:
            inner = ['O', rng.choice(['+', '^', '|']), [inner, gen_expr(rng, ids, depth - 1)]]
        return ['O', op, [inner, r_int(rng.choice([0, 1, 4, 8, 16, 31, 32]))]]
    if k < 0.70:
        # adjacent slices of ONE source (merge rule of the simplifier), plus another piece
        src = rng.choice(ids)
        if rng.random() < 0.2:
            # TWO runs of adjacent slices of the source, kept apart by a foreign nibble (each run is merged on its own)
            other = rng.choice([x for x in ids if x != src] or ids)
            slots = [[['S', src, 0, 8], 0, 8], [['S', src, 8, 12], 8, 12], [['S', other, 12, 16], 12, 16],
                     [['S', src, 16, 24], 16, 24], [['S', src, 24, 32], 24, 32]]
            if rng.random() < 0.3:
                rng.shuffle(slots)
            return ['C', slots]
        cuts = sorted(rng.sample([8, 16, 24], rng.choice([1, 2])))
        bounds = [0] + cuts + [32]
        slots = []
        for a, b in zip(bounds, bounds[1:]):
            if rng.random() < 0.75:
                slots.append([['S', src, a, b], a, b])
            elif (b - a) in (8, 16):
                slots.append([r_int(rng.choice(BOUNDARY), b - a), a, b])
            else:
                slots.append([['S', rng.choice(ids), a, b], a, b])
        if rng.random() < 0.4:
            rng.shuffle(slots)          # slot order as a caller may write it (e.g. movzx is lifted high part first)
        return ['C', slots]
    if k < 0.75:
        # compose of a low part and a high part
        cut = rng.choice([8, 16])
        lo = gen_expr(rng, ids, depth - 1, cut)
        if cut == 8:
            hi_src = gen_expr(rng, ids, depth - 1, 32)
            return ['C', [[lo, 0, 8], [['S', hi_src, 8, 32], 8, 32]]]
        hi = gen_expr(rng, ids, depth - 1, 16)
        return ['C', [[lo, 0, 16], [hi, 16, 32]]]
    if k < 0.85:
        return ['?', gen_expr(rng, ids, depth - 1), gen_expr(rng, ids, depth - 1), gen_expr(rng, ids, depth - 1)]
    if k < 0.95:
        base = gen_expr(rng, ids, depth - 1)
        return ['M', base, 32, None, False]
    return ['O', '==', [gen_expr(rng, ids, depth - 1), gen_expr(rng, ids, depth - 1)]]

# ---------------------------------------------------------- generated lines
# mnemonic x operand-text pools: different mnemonics meet the SAME operand text
ASM_MNEMO1 = ['inc', 'dec', 'push', 'pop', 'fld', 'fstp', 'neg', 'not', 'prefetcht0', 'prefetchw', 'call', 'jmp', 'fild', 'sete']
ASM_MNEMO2 = ['mov', 'lea', 'add', 'cmp', 'xor', 'test', 'xchg', 'movzx', 'imul', 'and', 'sub', 'or']
ASM_MEMTXT = ['[ebx+ecx]', '[ecx+ebx]', '[esi+ebp+1000]', '[ebp+esi+1000]', '[eax+edx*1]', '[esi+12]', '[ebx+64]', 'DWORD PTR [ebx+4]', 'WORD PTR [ebx+4]', 'BYTE PTR [ebx+4]', 'WORD PTR 68', 'DWORD PTR 68', '[eax]',
              '[esp+16+eax*4]', 'DWORD PTR [ebp-4]', '[ebx+ecx*4]', 'QWORD PTR [esp+8]', '[edx+eax]', 'dword ptr gs:20', 'toto[eax+8]', '8[ebp]']
ASM_REGTXT = ['eax', 'ecx', 'edx', 'ebx', 'ax', 'cx', 'al', 'cl', 'ah', 'esi', 'edi']
ASM_IMMTXT = ['0', '1', '5', '-1', '255', '0x1000', '66']

def gen_asm_line(rng, memtxt=None):
    ASM_MEMTXT_ = memtxt or ASM_MEMTXT
    k = rng.random()
    if k < 0.35:
        return '%s %s' % (rng.choice(ASM_MNEMO1), rng.choice(ASM_MEMTXT_ if rng.random() < 0.8 else ASM_REGTXT))
    m = rng.choice(ASM_MNEMO2)
    y = rng.random()
    if y < 0.4:
        return '%s %s, %s' % (m, rng.choice(ASM_REGTXT), rng.choice(ASM_MEMTXT_))
    if y < 0.7:
        return '%s %s, %s' % (m, rng.choice(ASM_MEMTXT_), rng.choice(ASM_REGTXT))
    if y < 0.85:
        return '%s %s, %s' % (m, rng.choice(ASM_MEMTXT_), rng.choice(ASM_IMMTXT))
    return '%s %s, %s' % (m, rng.choice(ASM_REGTXT), rng.choice(ASM_REGTXT + ASM_IMMTXT))

# AT&T: mnemonic x operand-text pools (different mnemonics meet the same operand text), prefix-only lines
ATT_MNEMO1 = ['call', 'jmp', 'jne', 'jg', 'pushl', 'pushw', 'popl', 'incl', 'decl', 'notl', 'negl', 'incb', 'flds', 'fildl', 'push', 'pop', 'inc']
ATT_MNEMO2 = ['movl', 'leal', 'addl', 'cmpl', 'xorl', 'testl', 'movb', 'movw', 'movzbl', 'mov', 'add']
ATT_OPTXT = ['4660', 'counter', 'table', '$2', '$4660', '4(%ebx)', '(%eax)', '8(%ebp)', '(%ebx,%ecx,4)', '%gs:20', '.LC0', '$.LC0', '16(%esp,%eax,4)', '%eax', '%cx', '%al']
ATT_REGTXT = ['%eax', '%ecx', '%edx', '%ax', '%al', '%cl']
ATT_PREFIX_ONLY = ['rep', 'repz', 'repnz', 'lock', 'notrack']

def gen_att_line(rng, optxt=None):
    ops = optxt or ATT_OPTXT
    k = rng.random()
    if k < 0.08:
        return rng.choice(ATT_PREFIX_ONLY)
    if k < 0.55:
        return '%s %s' % (rng.choice(ATT_MNEMO1), rng.choice(ops))
    m = rng.choice(ATT_MNEMO2)
    if rng.random() < 0.6:
        return '%s %s, %s' % (m, rng.choice(ops), rng.choice(ATT_REGTXT))
    return '%s %s, %s' % (m, rng.choice(ATT_REGTXT), rng.choice(ops))

# families of related encodings (same mnemonic in other widths / forms): they share table rows, caches and
# rendering paths, so drawing several members of one family into a run makes collisions frequent
BYTES_FAMILIES = [
    ['0fb6c3', '0fb7c3', '0fb64301', '0fb74302', '0fbec3', '0fbfc3', '0fbe4301', '0fbf4302', '660fb6c3', '0fb60b', '0fb70b'],
    ['a4', 'a5', '66a5', 'aa', 'ab', '66ab', 'ac', 'ad', '66ad', 'ae', 'af', '66af', 'a6', 'a7', 'f3a4', 'f3a5', 'f3a7', 'f2ae'],
    ['d8e2', 'dcea', 'd8c1', 'dcc1', 'd8f1', 'dcf9', 'd8e9', 'dce1', 'dee9', 'dee1', 'def9', 'def1', 'd8ca', 'dcca'],
    ['c70301000000', '8903', '8b03', 'c6430501', '8803', '8a03', '668903', '668b03', '8d03', '0f1803', '8d00', '8b00', '268a01', '8b01', '2e8a04'],
    ['e800010000', '67e80001', '0f8410000000', '670f841000', '66e80001', 'e900010000', '67e90001', '7410', '0f8510000000'],
    ['50', '6650', '58', '6658', '6a02', '666a02', '6802000000', '66680200', 'ff30', '66ff30', '8f00', '668f00', '06', '6606'],
    ['89d8', '88d8', '6689d8', '8bc3', '8ac3', '668bc3', '89c3', '88c3', '8ec0', '8cc0', '0f20c0', '0f22c0'],
    ['0f6fc1', '660f6fc1', 'f30f6fc1', '0f7fc1', '660f7fc1', '0f10c1', '660f10c1', 'f30f10c1', 'f20f10c1', '0f28c1', '660f28c1'],
]
BYTES_FAMILIES.append(['648b03', '268a01', '2e8a04', '658b0d00000000', 'a4', 'f3ab', 'a5', '8b03', '36890424', '3e8b4500', '64a100000000'])
BYTES_FAMILIES += [
    ['9c', '669c', '9f', '9e', '9d', '669d', '9c', '9f'],                                           # flag images: pushfd/pushfw/lahf/sahf/popfd
    ['0f1200', '0f12c1', '0f1600', '0f16ca', '0f134104', '0f174104', '660f1200', '660f1600'],       # movlps/movhlps/movhps/movlhps forms
    ['66ff10', '66ffd0', '66e80001', 'ff10', 'ffd0', 'e800010000', '66ff20', 'ff20', '7410', '66e90001'],  # 16- and 32-bit calls and jumps
]
BYTES_FAMILIES += [
    ['c3', '66c3', 'cb', '66cb', 'c20400', '66c20400', 'ca0400', 'c3', '66c3', 'cf', '66cf'],       # near/far returns at both operand sizes, with and without immediate
]
def gen_family_pool(rng, n=4):
    fam = rng.choice(BYTES_FAMILIES)
    return [rng.choice(fam) for _ in range(n)]

# families of related assembler lines: the same mnemonic over other register files / operand spellings / sizes
LINE_FAMILIES = [
    ['pxor mm0, mm1', 'pxor xmm0, xmm1', 'paddw mm2, mm3', 'paddw xmm2, xmm3', 'psubd mm0, mm1', 'psubd xmm0, xmm1', 'movd eax, mm1', 'movd eax, xmm1',
     'psrld mm1, 1', 'psrld xmm1, 1', 'movq mm0, mm1', 'movq xmm0, xmm1'],
    ['mov eax, [ebx+ecx]', 'mov eax, [ecx+ebx]', 'lea edx, [ebx+ecx]', 'lea edx, [ecx+ebx]', 'add [esi+ebp+1000], eax', 'add [ebp+esi+1000], eax',
     'mov eax, [esi+ebp+1000]', 'mov eax, [ebp+esi+1000]'],
    ['push 1 2 ecx', 'mov , eax', 'push ) ecx', 'mov eax, ebx', 'push ecx', 'lea , [eax]', 'mov eax ] ebx', 'inc , ', 'push 1', 'mov ecx, eax'],
    ['mov eax, [ebx#4]', 'push 12$', 'mov eax, `x`', 'mov eax, [ebx', 'mov eax, "ebx"', 'push ~1', 'mov eax, ebx', 'push 12', 'mov eax, [ebx+4]', 'lea eax, [ebx!]'],
    ['mov al, 1', 'mov ax, 1', 'mov eax, 1', 'mov BYTE PTR [eax], 1', 'mov WORD PTR [eax], 1', 'mov DWORD PTR [eax], 1', 'push 1', 'push WORD PTR 1', 'pushw 1'],
    ['cmp dx, 65534', 'cmp edx, 65534', 'mov ax, 65534', 'mov eax, 65534', 'add dx, 65534', 'add edx, 65534', 'cmp dl, 254', 'cmp edx, 254', 'push 65534'],
    ['mov {eax}, ~ebx!!!', 'push !eax!', 'mov eax, ebx!', 'mov eax`, ebx', 'mov e@x, ebx##', 'mov eax, ebx', 'push ##1##', 'lea eax, [ebx!!+!!4]'],
    ['jmp 2', 'jg 2', 'call 2', 'jmp eax', 'call eax', 'jmp [eax]', 'call [eax]', 'jmp DWORD PTR [eax]', 'loop 2', 'jecxz 2'],
    ['fadd st, st(1)', 'fadd st(1), st', 'fsub st, st(2)', 'fsubr st, st(2)', 'fsub st(2), st', 'fdiv st, st(2)', 'fdivr st(2), st', 'faddp st(1), st', 'fadd DWORD PTR [eax]', 'fadd QWORD PTR [eax]'],
]
ATT_LINE_FAMILIES = [
    ['pxor %mm1, %mm0', 'pxor %xmm1, %xmm0', 'paddw %mm3, %mm2', 'paddw %xmm3, %xmm2', 'movd %mm1, %eax', 'movd %xmm1, %eax', 'movq %mm1, %mm0', 'movq %xmm1, %xmm0'],
    ['pushl ) %ecx', 'pushl 1 2 %ecx', 'pushl %ecx', 'movl , %eax', 'movl %ebx, %eax', 'incl', 'rep', 'lock', 'ret', 'nop'],
    ['movl %eax, #5', 'movl 4[%ebx], %eax', 'pushl $12`', 'movl (%ebx, %eax', 'movl %ebx, %eax', 'pushl $12', 'movl 4(%ebx), %eax', 'movl ~(%ebx), %eax'],
    ['cmpw $0xFFFE, %dx', 'cmpl $0xFFFE, %edx', 'cmpb $0xFE, %dl', 'movw $0xFFFE, %ax', 'movl $0xFFFE, %eax', 'addw $0xFFFE, %dx', 'addl $0xFFFE, %edx'],
    ['movl %ebx!, %eax', 'movl {%ebx}, ~%eax!!', 'pushl !%eax!', 'movl %ebx, %eax', 'pushl ##$1##', 'movl %e@x, %ebx##'],
    ['movl (%ebx,%ecx), %eax', 'movl (%ecx,%ebx), %eax', 'leal (%ebx,%ecx), %edx', 'leal (%ecx,%ebx), %edx', 'movl 1000(%esi,%ebp), %eax', 'movl 1000(%ebp,%esi), %eax'],
    ['fsub %st, %st(2)', 'fsubr %st, %st(2)', 'fsub %st(2), %st', 'fdiv %st, %st(2)', 'fdivr %st, %st(2)', 'fadds (%eax)', 'faddl (%eax)'],
]
def gen_line_family(rng, att=False, n=4):
    fam = rng.choice(ATT_LINE_FAMILIES if att else LINE_FAMILIES)
    return [rng.choice(fam) for _ in range(n)]
