# C12 cache world: ONE PROCESS LIFETIME.  Runs in a fresh interpreter pointed
# (TMPDIR) at the simulated cache directory; only that directory survives.
#   cache_worker.py <repo> <cachedir> <spec.json>
import sys, os, json, builtins, errno
repo, cachedir, specfile = sys.argv[1], sys.argv[2], sys.argv[3]
with open(specfile) as f:
    spec = json.load(f)
os.environ['TMPDIR'] = cachedir
here = os.path.dirname(os.path.dirname(os.path.abspath(__file__)))
sys.path.insert(0, repo)
path0 = list(sys.path)
fired = []

# ---- storage fault injector at the builtins.open seam (cache directory only)
fault = spec.get('fault') or {}
_real_open = builtins.open
class FaultyFile(object):
    def __init__(self, f, kind, k):
        self.f, self.kind, self.k, self.n = f, kind, k, 0
    def write(self, s):
        room = self.k - self.n
        if len(s) <= room:
            self.n += len(s)
            return self.f.write(s)
        self.f.write(s[:max(room, 0)])
        self.n = self.k
        self.f.flush()
        if self.kind == 'crash':
            sys.stdout.write(json.dumps({'crashed_at': self.k}) + '\n')
            sys.stdout.flush()
            os._exit(77)                 # power cut: only what reached the file survives
        fired.append('enospc@%d' % self.k)
        raise OSError(errno.ENOSPC, 'injected ENOSPC')
    def close(self):
        return self.f.close()
    def __getattr__(self, a):
        return getattr(self.f, a)
    def __enter__(self):
        return self
    def __exit__(self, *a):
        self.f.close()
def faulty_open(file, mode='r', *a, **kw):
    try:
        inside = isinstance(file, str) and os.path.abspath(file).startswith(os.path.abspath(cachedir) + os.sep) \
            and os.path.basename(file).startswith('ply_ia32_')
    except Exception:
        inside = False
    if inside and ('w' in mode or 'a' in mode):
        target = fault.get('module')
        if target is None or target in os.path.basename(file):
            if fault.get('kind') == 'eacces':
                fired.append('eacces')
                raise PermissionError(errno.EACCES, 'injected EACCES', file)
            if fault.get('kind') in ('crash', 'enospc'):
                return FaultyFile(_real_open(file, mode, *a, **kw), fault['kind'], fault['k'])
    return _real_open(file, mode, *a, **kw)
builtins.open = faulty_open

import logging
logging.disable(logging.CRITICAL)
devnull = _real_open(os.devnull, 'w')
real_stdout = sys.stdout
sys.stdout = devnull          # lexers print()
sys.stderr = devnull

out = {'imports': [], 'asm': [], 'asm_att': [], 'bad': []}
mods = {'arch': 'miasmx.arch.ia32_arch', 'parse_ad': 'miasmx.core.parse_ad', 'emul': 'miasmx.tools.emul_helper', 'att': 'miasmx.arch.ia32_att'}
ok_all = True
for name in spec['import_order']:
    try:
        __import__(mods[name])
        out['imports'].append([name, 'ok'])
    except BaseException as e:
        out['imports'].append([name, 'EXC:' + type(e).__name__])
        ok_all = False
out['sys_path_after_import'] = (sys.path == path0)
A = sys.modules.get('miasmx.arch.ia32_arch')
if A is not None and hasattr(A, 'x86mnemo'):
    def call(fn, line):
        try:
            r = fn(line)
            return [x.hex() if isinstance(x, (bytes, bytearray)) else repr(x) for x in r] if isinstance(r, list) else repr(r)
        except BaseException as e:
            return 'EXC:' + type(e).__name__
    for line in spec['intel']:
        out['asm'].append(call(A.x86mnemo.asm, line))
    for line in spec['att']:
        out['asm_att'].append(call(A.x86mnemo.asm_att, line))
    for syntax, line in spec['bad']:
        out['bad'].append(call(A.x86mnemo.asm if syntax == 'intel' else A.x86mnemo.asm_att, line))
else:
    out['no_api'] = True
# diagnosis only (never decides): late imports of not-yet-loaded stdlib modules, sys.path
late = []
for m in ('colorsys', 'fractions', 'statistics'):
    try:
        __import__(m)
        late.append([m, 'ok'])
    except BaseException as e:
        late.append([m, 'EXC:' + type(e).__name__])
out['diag'] = {'late_imports': late, 'sys_path_restored': sys.path == path0, 'sys_path_len': len(sys.path)}
out['fired'] = fired
# state of the directory as this lifetime leaves it
left = {}
for fn in sorted(os.listdir(cachedir)):
    p = os.path.join(cachedir, fn)
    left[fn] = os.path.getsize(p) if os.path.isfile(p) else 'dir'
out['left'] = left
real_stdout.write(json.dumps(out) + '\n')
real_stdout.flush()
