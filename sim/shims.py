# Corrective shims for LISTED known findings (known_findings.json).  A shim is
# applied only in the attribution re-run of a violating history, never in a
# deciding run: if the violation disappears under the shim it is attributed to
# that finding, otherwise it is new.  Shims are post-condition wrappers around
# the real code, not copies of it, so a change to the wrapped function still
# shows through.

def _is_eval_closed():
    """Finding C12/is_eval-leak: eval_expr() flags whatever it returns as
    'already evaluated', including unbound register singletons and values that
    still contain them; the flag lives on the object and is honoured by every
    machine.  Shim: after each eval_expr, remove the flag again unless the
    value contains no identifier a state could still bind."""
    import miasmx.expression.expression_eval_abstract as V
    from miasmx.expression.expression import get_expr_ids, ExprId
    if getattr(V.eval_abs, '_verif_shim_is_eval', False):
        return
    orig = V.eval_abs.eval_expr
    def eval_expr(self, e, eval_cache):
        ret = orig(self, e, eval_cache)
        d = getattr(ret, '__dict__', None)
        if ret is e and not isinstance(ret, ExprId):
            # the pinned code hands the caller's own object back only for identifiers, constants and Top; a flag on
            # a caller's COMPOSITE expression is not this finding and is left in place so that it is reported
            return ret
        if d is not None and d.get('is_eval') and not ret.is_term:
            try:
                open_ids = [i for i in get_expr_ids(ret) if not i.is_term]
            except Exception:
                open_ids = []
            if open_ids:
                del ret.is_eval
        return ret
    V.eval_abs.eval_expr = eval_expr
    V.eval_abs._verif_shim_is_eval = True

SHIMS = {
    'is_eval_closed': _is_eval_closed,
}

def apply(names):
    for n in names:
        SHIMS[n]()
