# C12: API results depend only on explicit inputs.  Two worlds, one verdict.
import os, sys, json
from . import core, runner

TIERS = {'quick': {'calls': 2500}, 'thorough': {'calls': 200000}}

def main(args):
    from . import sim_calls as SC, c12_calls_driver as D
    core.import_sut()
    pristine = SC.pristine_tables()
    if args.replay:
        with open(args.replay) as f:
            world = json.load(f).get('world', 'calls')
        if world == 'calls':
            return D.replay(args.replay, pristine)
        from . import sim_cache
        return sim_cache.replay(args.replay)
    tier = args.tier if args.tier in TIERS else 'quick'
    seed = core.base_seed()
    batch = runner.Batch('C12', tier, seed)
    n = args.runs or TIERS[tier]['calls']
    cov = D.run(batch, n, pristine)
    cov['rule'] = ('calls world: seeded histories of 2..50 API calls by 1-4 clients over shared/fresh objects; every call result is '
                   'compared with the same call in the isolated pristine execution of its thread (O1), inputs are serialised before/after (O2), '
                   'shared tables digested (O3). distinct = distinct op-list hash; non-trivial = the history has >= 2 threads of explicit '
                   'dependence (so at least one foreign call precedes some probe call)')
    cov['real_components'] = ['all of miasmx/ and ply/ from the tree under test, imported from ' + core.REPO, 'CPython fork()']
    cov['stub_components'] = ['object pool / aliasing decisions', 'isolated reference executions (same real code, pristine process)']
    assumptions = ['a forked child of the post-import parent is an exact pristine copy of interpreter state',
                   'PYTHONHASHSEED=0 in every process of this check (hash-seed dependence is C13)',
                   'memo flags set on a result object by the call that returned it travel with that object when it is fed to a later call']
    return batch.finish(cov, assumptions, n)
