# C12: API results depend only on explicit inputs.  Two worlds, one verdict.
import os, sys, json
from . import core, runner

TIERS = {'quick': {'calls': 4500, 'cache': 800}, 'thorough': {'calls': 200000, 'cache': 12000}}

def main(args):
    if args.replay:
        with open(args.replay) as f:
            world = json.load(f).get('world', 'calls')
        if world == 'cache':
            from . import c12_cache_driver as CD
            return CD.replay(args.replay)
        from . import sim_calls as SC, c12_calls_driver as D
        core.import_sut()
        return D.replay(args.replay, SC.pristine_tables())
    tier = args.tier if args.tier in TIERS else 'quick'
    seed = core.base_seed()
    batch = runner.Batch('C12', tier, seed)
    worlds = [args.world] if args.world else ['cache', 'calls']
    cov = {'worlds': {}}
    total = 0
    if 'cache' in worlds:
        # real interpreters: run before this process imports the tree under test
        from . import c12_cache_driver as CD
        n = args.runs or TIERS[tier]['cache']
        cov['worlds']['cache'] = CD.run(batch, n)
        total += n
    if 'calls' in worlds:
        from . import sim_calls as SC, c12_calls_driver as D
        core.import_sut()
        pristine = SC.pristine_tables()
        n = args.runs or TIERS[tier]['calls']
        cov['worlds']['calls'] = D.run(batch, n, pristine)
        total += n
    cov['evaluations'] = sum(w['evaluations'] for w in cov['worlds'].values())
    cov['distinct_nontrivial'] = sum(w['distinct_nontrivial'] for w in cov['worlds'].values())
    cov['samples'] = [s for w in cov['worlds'].values() for s in w.pop('samples', [])][:4]
    cov['steps_total'] = cov['worlds'].get('calls', {}).get('steps_total', 0) + cov['worlds'].get('cache', {}).get('process_lifetimes', 0)
    cov['faults_fired'] = dict(('%s.%s' % (wn, k), v) for wn, w in cov['worlds'].items() for k, v in w.get('faults_fired', {}).items())
    cov['rule'] = ('calls world: seeded histories of 2..50 API calls by 1-4 clients over shared/fresh objects; every call result is '
                   'compared with the same call in the isolated pristine execution of its thread (O1), inputs are serialised before/after (O2), '
                   'shared tables digested (O3); distinct = distinct op-list hash; non-trivial = the history has >= 2 threads of explicit '
                   'dependence (so at least one foreign call precedes some probe call). cache world: a run = a seeded initial state of the parser-table '
                   'directory (empty, warm, torn@k, hole@k, stale signature, stale table version, foreign file/dir, read-only) and 1-4 real interpreter '
                   'lifetimes over it with crash@k / ENOSPC@k / EACCES during table writes; every surviving lifetime\'s API-visible results (imports, 80 '
                   'assembled lines, 6 malformed lines) must equal the reference lifetimes over a private empty and a private warm directory, which '
                   'must agree with each other; non-trivial = initial state not warm or at least one fault fired')
    cov['real_components'] = ['all of miasmx/ and ply/ from the tree under test (' + core.REPO + ')', 'CPython fork(), import system, bytecode cache',
                              'tmpfs directory as the cache']
    cov['stub_components'] = ['object pool / aliasing decisions', 'isolated reference executions (same real code, pristine process)',
                              'builtins.open fault wrapper (crash, ENOSPC, EACCES)', 'directory state constructors (torn, hole, stale, foreign)']
    assumptions = ['a forked child of the post-import parent is an exact pristine copy of interpreter state',
                   'PYTHONHASHSEED=0 in every process of this check (hash-seed dependence is C13)',
                   'memo flags set on a result object by the call that returned it travel with that object when it is fed to a later call',
                   'cache world: only API-visible differences decide; sys.path and late stdlib imports are recorded as diagnosis',
                   'nothing is asserted about a lifetime the simulator itself killed']
    return batch.finish(cov, assumptions, total)
