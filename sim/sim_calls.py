# C12, in-process world: interleaved call histories over shared / fresh objects,
# compared with the isolated execution of every thread of explicit dependence.
# See DESIGN.md 4.1.a.
import json, os, sys, random, hashlib, pickle, time
from . import core, canon, gen, shims

BUDGET_CALLS = 60000          # deterministic bound on simplifier work per API call
CHILD_TIMEOUT = 40.0          # safety net only; a timed-out run is discarded

class Budget(Exception):
    pass

_SUT = None

def sut():
    """Handles on the real code (after core.import_sut())."""
    global _SUT
    if _SUT is None:
        core.import_sut()
        import miasmx.arch.ia32_arch as A
        import miasmx.arch.ia32_sem as S
        import miasmx.arch.ia32_att as T
        import miasmx.core.parse_ad as P
        import miasmx.core.bin_stream as B
        import miasmx.tools.emul_helper as H
        import miasmx.expression.expression as E
        import miasmx.expression.expression_helper as X
        import miasmx.expression.expression_eval_abstract as V
        import miasmx.tools.modint as MI
        class _S(object):
            pass
        s = _S()
        s.A, s.S, s.T, s.P, s.B, s.H, s.E, s.X, s.V, s.MI = A, S, T, P, B, H, E, X, V, MI
        s.regs = {}
        for k, v in vars(S).items():
            if isinstance(v, E.ExprId) and v.name not in s.regs:
                s.regs[v.name] = v
        _SUT = s
    return _SUT

# ------------------------------------------------------------- call budget

_budget = [0]

def install_budget():
    s = sut()
    X = s.X
    if getattr(X, '_verif_budget', False):
        return
    orig = X._expr_simp
    def counted(e):
        _budget[0] -= 1
        if _budget[0] < 0:
            raise Budget()
        return orig(e)
    X._expr_simp = counted
    X._verif_budget = True

def reset_budget():
    _budget[0] = BUDGET_CALLS

# ------------------------------------------------------------- table digest

def tables_fast():
    s = sut()
    A, S = s.A, s.S
    objs = [sorted(vars(A.x86mndb).items(), key=lambda kv: kv[0]), A.r_eax, A.r_cl, A.r_ax, A.r_dx,
            A.att_mnemo_table, A.mnemo_mmx_hash, sorted(S.mnemo_func.keys()),
            A.prefix_dic, A.prefix_seg, A.prefix_seg_inv, A.segm_regs, A.unsanity_mnemo,
            sorted(vars(A.x86_afs).items(), key=lambda kv: kv[0])]
    try:
        b = pickle.dumps(objs, 4)
    except Exception as e:
        b = ('unpicklable:%s' % type(e).__name__).encode()
    return hashlib.sha256(b).hexdigest()

def tables_small():
    """The small, flag-carrying part: init_regs (keys, values and ExprInt
    payloads), the register singletons' structure, sys.path."""
    s = sut()
    S = s.S
    ir = [[canon.ser_expr(k), canon.ser_expr(v)] for k, v in S.init_regs.items()]
    ir.sort(key=lambda x: json.dumps(x))
    regs = sorted([[n, canon.ser_expr(v)] for n, v in s.regs.items()], key=lambda x: x[0])
    return {'init_regs': ir, 'regs': regs, 'sys_path': list(sys.path)}

def tables_slow():
    s = sut()
    A, S = s.A, s.S
    d = {}
    for k, v in vars(A.x86mndb).items():
        d['x86mndb.' + k] = core.digest(canon.ser_val(v))
    for n in ('r_eax', 'r_cl', 'r_ax', 'r_dx', 'att_mnemo_table', 'mnemo_mmx_hash', 'prefix_dic',
              'prefix_seg', 'prefix_seg_inv', 'segm_regs', 'unsanity_mnemo'):
        d[n] = core.digest(canon.ser_val(getattr(A, n)))
    d['mnemo_func.keys'] = core.digest(sorted(S.mnemo_func.keys()))
    d['x86_afs'] = core.digest(canon.ser_val(vars(A.x86_afs)))
    return d

_PRISTINE = None

def pristine_tables():
    """Computed once, in a pristine forked child of the parent."""
    global _PRISTINE
    if _PRISTINE is None:
        r = core.fork_call(lambda: {'fast': tables_fast(), 'small': tables_small(), 'slow': tables_slow()}, (), 300)
        if r.status != 'ok':
            raise core.HarnessError('cannot digest pristine tables: %r' % (r.value,))
        _PRISTINE = r.value
    return _PRISTINE

def tables_check(pr):
    """Run at the end of a history inside the child.  Returns None or a
    description of what differs from the pristine tables."""
    diffs = []
    small = tables_small()
    for k in ('init_regs', 'regs', 'sys_path'):
        if small[k] != pr['small'][k]:
            diffs.append(k)
    if tables_fast() != pr['fast']:
        slow = tables_slow()
        for k in sorted(slow):
            if slow[k] != pr['slow'].get(k):
                diffs.append(k)
    return diffs or None

# ------------------------------------------------------------------ world

FALLBACK = ['I', 'uint32', 0]

REPEATABLE = ('simp', 'exprapi', 'asm', 'asm_att', 'dis', 'lift', 'render')

class World(object):
    def __init__(self, mode):
        self.mode = mode            # 'inter' | 'iso'
        self.machines = {}
        self.streams = {}
        self.pool = {}
        self.results = {}
        self.instrs = {}
        self.bind_dicts = {}
        self.bind_of = {}
        self.watch = []
        self.stats = {'alias_hits': 0, 'ref_args': 0, 'raised': 0, 'shared_bind_reuse': 0, 'iref_reuse': 0}

    # ---- argument construction
    def expr_arg(self, spec, shared, resolved):
        s = sut()
        if isinstance(spec, dict) and 'ref' in spec:
            j = spec['ref']
            if self.mode == 'inter':
                o = self.results.get(j)
                if isinstance(o, s.E.Expr):
                    self.stats['ref_args'] += 1
                    return o
                return canon.deser_expr(FALLBACK, s.regs)
            r = resolved.get(str(j))
            if isinstance(r, list) and len(r) == 3 and r[0] == 'expr':
                o = canon.deser_expr(r[1], s.regs)
                canon.apply_flags(o, r[2])      # as its producer returned it
                return o
            return canon.deser_expr(FALLBACK, s.regs)
        if self.mode == 'inter' and shared:
            key = json.dumps(spec)
            o = self.pool.get(key)
            if o is not None:
                self.stats['alias_hits'] += 1
            if o is None:
                o = canon.deser_expr(spec, s.regs)
                self.pool[key] = o
                self.watch.append(('expr', o, canon.ser_expr(o)))
            return o
        return canon.deser_expr(spec, s.regs)

    def instr_arg(self, op):
        s = sut()
        j = op.get('iref')
        if self.mode == 'inter' and j is not None and self.instrs.get(j) is not None:
            self.stats['iref_reuse'] += 1
            return self.instrs[j]
        attrib = {}
        if op.get('mode') == 16:
            attrib = {'opmode': s.A.u16}
        if op.get('xattr') is not None and not attrib:
            attrib = {'opmode': s.A.u32, 'admode': s.A.u32} if op['xattr'] == 32 else {}
            return s.A.x86mnemo.dis(bytes.fromhex(op['hex']), attrib)
        return s.A.x86mnemo.dis(bytes.fromhex(op['hex']), attrib) if attrib else s.A.x86mnemo.dis(bytes.fromhex(op['hex']))

    # ---- one API call
    def exec_op(self, idx, op, resolved):
        s = sut()
        reset_budget()
        kind = op['op']
        mut = []
        others = None
        if self.mode == 'inter' and kind in ('step', 'affs', 'eval', 'get_reg', 'dump', 'clone') and len(self.machines) > 1:
            mine = op.get('m')
            others = [(k, canon.ser_machine(mm)) for k, mm in sorted(self.machines.items()) if k != mine]
        # a stateless call may be repeated (a caller's retry loop); what is recorded is the last answer
        nrep = op.get('rep', 1) if kind in REPEATABLE else 1
        if nrep > 1:
            self.stats['repeated_calls'] = self.stats.get('repeated_calls', 0) + nrep - 1
            if nrep >= 20:
                self.stats['retry_storms'] = self.stats.get('retry_storms', 0) + 1
        for fl in ('noargs', 'nocache', 'modonly', 'xattr', 'symoff', 'ill'):
            if op.get(fl) is not None:
                self.stats['style:' + fl] = self.stats.get('style:' + fl, 0) + 1
        for _ in range(nrep):
            reset_budget()
            try:
                r = getattr(self, 'op_' + kind)(idx, op, resolved, mut)
            except Budget:
                r = ['BUDGET']
            except RecursionError:
                r = ['EXC', 'RecursionError']
            except Exception as e:
                r = canon.exc_tag(e)
        if others:
            for k, before in others:
                if k in self.machines and canon.ser_machine(self.machines[k]) != before:
                    mut.append('other-machine')
                    break
        if isinstance(r, list) and r and r[0] == 'EXC':
            self.stats['raised'] += 1
        rec = {'r': r}
        o = self.results.get(idx)
        if o is not None and isinstance(r, list) and r and r[0] == 'expr':
            rec['rf'] = canon.ser_flags(o)
        if mut:
            rec['mut'] = mut
        return rec

    def op_dis(self, idx, op, resolved, mut):
        i = self.instr_arg(dict(op, iref=None))
        self.instrs[idx] = i
        if i is not None:
            self.watch.append(('instr', i, canon.ser_instr_input(i)))
        return canon.ser_instr(i)

    def op_render(self, idx, op, resolved, mut):
        # render (again) an instruction object obtained by an earlier dis() of this history
        i = self.instr_arg(op)
        if i is None:
            return None
        before = canon.ser_instr_input(i)
        out = [canon.render(i), canon.render(i, 'att_syntax'), canon.render(i, 'att_syntax objdump'), canon.render(i, 'intel_syntax')]
        if canon.ser_instr_input(i) != before:
            mut.append('instr')
        return out

    def op_asm(self, idx, op, resolved, mut):
        s = sut()
        if op.get('symoff'):
            so = []
            out = s.A.x86mnemo.asm(op['line'], so)
            return [canon.ser_val(out), canon.ser_val(so)]
        out = s.A.x86mnemo.asm(op['line'])
        return canon.ser_val(out)

    def op_asm_att(self, idx, op, resolved, mut):
        s = sut()
        out = s.A.x86mnemo.asm_att(op['line'])
        return canon.ser_val(out)

    def op_lift(self, idx, op, resolved, mut):
        s = sut()
        i = self.instr_arg(op)
        if i is None:
            return None
        before = canon.ser_instr_input(i)
        # the address expression is an input too; a caller may keep one object for several lifts
        eip = self.expr_arg(['I', 'uint32', op.get('eip', 0x1000)], op.get('shared_eip'), resolved)
        eip_before = canon.ser_expr(eip)
        try:
            if op.get('noargs'):
                if op.get('segm'):
                    affs = s.H.get_instr_expr(i, eip, segm_to_do=set(op['segm']))
                else:
                    affs = s.H.get_instr_expr(i, eip)
            elif op.get('segm'):
                affs = s.H.get_instr_expr(i, eip, [], set(op['segm']))
            else:
                affs = s.H.get_instr_expr(i, eip, [])
        finally:
            after = canon.ser_instr_input(i)
            if after != before:
                mut.append('instr')
            if canon.ser_expr(eip) != eip_before:
                mut.append('eip')
        out = [canon.ser_expr(a) for a in affs]
        if self.mode == 'inter':
            # the caller keeps what it was handed (a basic-block cache would): later calls must not change it
            self.results[idx] = list(affs)
            self.watch.append(('exprlist', list(affs), out))
        return out

    def op_simp(self, idx, op, resolved, mut):
        s = sut()
        e = self.expr_arg(op['e'], op.get('shared'), resolved)
        before = canon.ser_expr(e)
        try:
            r = s.X.expr_simp(e)
        finally:
            if canon.ser_expr(e) != before:
                mut.append('expr')
        self.results[idx] = r
        out = canon.ser_expr(r)
        if self.mode == 'inter':
            self.watch.append(('expr', r, out))     # what was handed out stays what it was
        return ['expr', out]

    def op_exprapi(self, idx, op, resolved, mut):
        # the other read-only entry points of the expression API: copy / canonize / replace_expr / visit
        s = sut()
        e = self.expr_arg(op['e'], op.get('shared'), resolved)
        before = canon.ser_expr(e)
        fn = op['fn']
        try:
            if fn == 'copy':
                r = e.copy()
            elif fn == 'canonize':
                r = e.canonize()
            elif fn == 'replace':
                src = canon.deser_expr(op['src'], s.regs)
                dst = canon.deser_expr(op['dst'], s.regs)
                r = e.replace_expr({src: dst})
            else:
                r = e.visit(lambda x: x)
        finally:
            if canon.ser_expr(e) != before:
                mut.append('expr')
        self.results[idx] = r
        if self.mode == 'inter':
            # the result must not alias caller-owned mutable containers of the argument: watched until the end
            self.watch.append(('expr', r, canon.ser_expr(r)))
        return ['expr', canon.ser_expr(r)]

    def op_mutate_bind(self, idx, op, resolved, mut):
        # the caller edits the bindings dictionary it built a machine from: the machine must not notice
        s = sut()
        m = self.machines[op['m']]
        d = self.bind_of.get(op['m'])
        if d is None:
            return 'no-dict'
        before = canon.ser_machine(m)
        key = s.regs[op['reg']]
        if op.get('delete') and key in d:
            del d[key]
        else:
            d[key] = canon.deser_expr(op['val'], s.regs)
        if canon.ser_machine(m) != before:
            mut.append('machine-aliases-bindings')
        # the watch entry of this dictionary follows the caller's own edit
        for n, (kind, obj, ser) in enumerate(self.watch):
            if kind == 'bind' and obj is d:
                self.watch[n] = (kind, obj, self.ser_bind(d))
        return 'ok'

    def op_new_machine(self, idx, op, resolved, mut):
        s = sut()
        k = op['m']
        if op['kind'] == 'x86':
            self.machines[k] = s.H.x86_machine()
            return 'ok'
        sid = op.get('shared_bind')
        d = None
        if self.mode == 'inter' and sid is not None:
            d = self.bind_dicts.get(sid)
            if d is not None:
                self.stats['shared_bind_reuse'] += 1
        if d is None:
            d = {}
            for name, val in op['bind']:
                d[s.regs[name]] = canon.deser_expr(val, s.regs)
            if self.mode == 'inter':
                if sid is not None:
                    self.bind_dicts[sid] = d
                self.watch.append(('bind', d, self.ser_bind(d)))
        before = self.ser_bind(d)
        self.bind_of[k] = d
        self.machines[k] = s.V.eval_abs(d)
        if self.ser_bind(d) != before:
            mut.append('bind')
        return 'ok'

    def op_clone(self, idx, op, resolved, mut):
        # a second machine started from a copy of another machine's pool (mpool.copy())
        s = sut()
        src = self.machines[op['from']]
        before = canon.ser_machine(src)
        m2 = s.V.eval_abs({})
        m2.pool = src.pool.copy()
        self.machines[op['m']] = m2
        if canon.ser_machine(src) != before:
            mut.append('machine')
        return canon.ser_machine(m2)

    @staticmethod
    def ser_bind(d):
        items = [[canon.ser_expr(k), canon.ser_expr(v)] for k, v in d.items()]
        items.sort(key=lambda x: json.dumps(x))
        return items

    def op_eval(self, idx, op, resolved, mut):
        m = self.machines[op['m']]
        e = self.expr_arg(op['e'], op.get('shared'), resolved)
        before_e = canon.ser_expr(e)
        before_m = canon.ser_machine(m)
        try:
            r = m.eval_expr_no_cache(e) if op.get('nocache') else m.eval_expr(e, {})
        finally:
            if canon.ser_expr(e) != before_e:
                mut.append('expr')
            if canon.ser_machine(m) != before_m:
                mut.append('machine')
        self.results[idx] = r
        out = canon.ser_expr(r)
        if self.mode == 'inter':
            self.watch.append(('expr', r, out))     # what was handed out stays what it was
        return ['expr', out]

    def op_get_reg(self, idx, op, resolved, mut):
        s = sut()
        m = self.machines[op['m']]
        before_m = canon.ser_machine(m)
        try:
            r = m.get_reg(s.regs[op['reg']])
        finally:
            if canon.ser_machine(m) != before_m:
                mut.append('machine')
        self.results[idx] = r
        out = canon.ser_expr(r)
        if self.mode == 'inter':
            self.watch.append(('expr', r, out))     # what was handed out stays what it was
        return ['expr', out]

    def op_dump(self, idx, op, resolved, mut):
        m = self.machines[op['m']]
        before_m = canon.ser_machine(m)
        try:
            ids = m.dump_id()
            mems = sorted(m.dump_mem())     # order of dump_mem is C13's business
        finally:
            if canon.ser_machine(m) != before_m:
                mut.append('machine')
        return {'dump_id': ids, 'dump_mem': mems, 'state': before_m}

    def op_step(self, idx, op, resolved, mut):
        s = sut()
        m = self.machines[op['m']]
        i = self.instr_arg(op)
        if i is None:
            return None
        before = canon.ser_instr_input(i)
        try:
            ret = s.H.emul_lines(m, [i])
        finally:
            if canon.ser_instr_input(i) != before:
                mut.append('instr')
        return {'eip': ['expr', canon.ser_expr(ret)] if isinstance(ret, s.E.Expr) else canon.ser_val(ret),
                'state': canon.ser_machine(m)}

    def op_affs(self, idx, op, resolved, mut):
        s = sut()
        m = self.machines[op['m']]
        affs = []
        spec = op['affs']
        if isinstance(spec, dict) and 'ref' in spec:
            # the kept result of an earlier lift (the very objects when interleaved, rebuilt from what the lift
            # returned when isolated)
            if self.mode == 'inter':
                kept = self.results.get(spec['ref'])
                if not isinstance(kept, list):
                    return None
                affs = list(kept)
                self.stats['lift_ref_args'] = self.stats.get('lift_ref_args', 0) + 1
            else:
                r = resolved.get(str(spec['ref']))
                if not (isinstance(r, list) and all(isinstance(x, list) and x and x[0] == '=' for x in r)):
                    return None
                affs = [canon.deser_expr(x, s.regs) for x in r]
        elif spec and isinstance(spec[0], str):
            return None                 # (a reference that minimisation dropped)
        else:
            for dst, src in spec:
                d = self.expr_arg(dst, op.get('shared'), resolved)
                sr = self.expr_arg(src, op.get('shared'), resolved)
                affs.append(s.E.ExprAff(d, sr))
        before = [canon.ser_expr(a) for a in affs]
        if op.get('modonly'):
            before_m = canon.ser_machine(m)
            try:
                po = m.get_instr_mod(affs)
            finally:
                if [canon.ser_expr(a) for a in affs] != before:
                    mut.append('affs')
                if canon.ser_machine(m) != before_m:
                    mut.append('machine')
            return {'mod': sorted(([canon.ser_expr(k), canon.ser_expr(v)] for k, v in po.items()), key=json.dumps)}
        try:
            ret = m.eval_instr(affs)
        finally:
            if [canon.ser_expr(a) for a in affs] != before:
                mut.append('affs')
        return {'mem_dst': [canon.ser_expr(x) for x in ret], 'state': canon.ser_machine(m)}

    def op_new_stream(self, idx, op, resolved, mut):
        s = sut()
        self.streams[op['s']] = s.B.bin_stream(bytes.fromhex(op['hex']), op.get('off', 0))
        return 'ok'

    def op_dis_stream(self, idx, op, resolved, mut):
        s = sut()
        st = self.streams[op['s']]
        i = s.A.x86mnemo.dis(st)
        return {'i': canon.ser_instr(i), 'off': st.offset}

    # ---- end-of-history input preservation (O2, strong form)
    def watch_check(self):
        bad = []
        for n, (kind, obj, before) in enumerate(self.watch):
            if kind == 'expr':
                now = canon.ser_expr(obj)
            elif kind == 'exprlist':
                now = [canon.ser_expr(x) for x in obj]
            elif kind == 'instr':
                now = canon.ser_instr_input(obj)
            else:
                now = self.ser_bind(obj)
            if now != before:
                bad.append({'kind': kind, 'before': before, 'after': now})
        return bad


def thread_of(op, idx):
    if 'm' in op and op['op'] in ('new_machine', 'eval', 'get_reg', 'dump', 'step', 'affs', 'clone', 'mutate_bind'):
        return 'm%d' % op.get('root', op['m'])
    if op['op'] in ('new_stream', 'dis_stream'):
        return 's%d' % op['s']
    return 'o%d' % idx

def refs_of(op):
    out = []
    def walk(x):
        if isinstance(x, dict):
            if 'ref' in x and len(x) == 1:
                out.append(x['ref'])
            else:
                for v in x.values():
                    walk(v)
        elif isinstance(x, list):
            for v in x:
                walk(v)
    for k in ('e', 'affs'):
        if k in op:
            walk(op[k])
    return out

# ------------------------------------------------------- the two executions

def run_interleaved(ops, pristine, shim_names=()):
    install_budget()
    shims.apply(shim_names)
    w = World('inter')
    probes = core.LineProbes(probe_sites())
    probes.start()
    recs = []
    try:
        for idx, op in enumerate(ops):
            recs.append(w.exec_op(idx, op, {}))
    finally:
        probes.stop()
    return {'recs': recs, 'watch': w.watch_check(), 'tables': tables_check(pristine),
            'stats': w.stats, 'probes': sorted(probes.hits)}

_SITES = None

def probe_sites():
    """Anchored 'this rare condition was hit' lines, located by source text so
    that they survive edits of the tree under test."""
    global _SITES
    if _SITES is None:
        want = [
            ('eval_expr:is_eval-shortcut', 'miasmx/expression/expression_eval_abstract.py', 'if e.is_eval:', 1),
            ('eval_expr:cache-hit', 'miasmx/expression/expression_eval_abstract.py', 'return eval_cache[e]', 0),
            ('expr_simp:memo-hit', 'miasmx/expression/expression_helper.py', 'if e.simp:', 1),
            ('dis:table-owned-operand', 'miasmx/arch/ia32_arch.py', 'dib_out.append(dib)', 0),
            ('emul:tsc1-increment', 'miasmx/tools/emul_helper.py', 'if isinstance(machine.pool[tsc1], ExprInt):', 1),
            ('emul:rep-loop-step', 'miasmx/tools/emul_helper.py', 'tsc_inc += 1', 0),
            ('eval_instr:overlap-split', 'miasmx/expression/expression_eval_abstract.py', 'diff_mem = self.substract_mems(x, op)', 0),
            ('eval_ExprMem:overlap-read', 'miasmx/expression/expression_eval_abstract.py', 'missing_slice = self.rest_slice(out, 0, a.get_size())', 0),
            ('asm:p_error-intel', 'miasmx/core/parse_ad.py', 'def p_error(t):', 1),
            ('asm:p_error-att', 'miasmx/arch/ia32_att.py', 'def p_error(t):', 1),
        ]
        _SITES = {}
        for label, rel, text, delta in want:
            path = os.path.join(core.REPO, rel)
            try:
                with open(path) as f:
                    lines = f.read().split('\n')
            except OSError:
                continue
            for n, line in enumerate(lines, 1):
                if line.strip() == text:
                    k = n
                    if delta:
                        # first following line that holds code
                        k = n + 1
                        while k <= len(lines) and (not lines[k - 1].strip() or lines[k - 1].strip().startswith('#')):
                            k += 1
                    _SITES[label] = (rel, k)
                    break
    return _SITES

def _single(req):
    install_budget()
    shims.apply(req.get('shims', ()))
    w = World('iso')
    return w.exec_op(req['idx'], req['op'], req['resolved'])

def _servant_factory(shim_names=()):
    install_budget()
    shims.apply(shim_names)
    w = World('iso')
    def handler(req):
        return w.exec_op(req['idx'], req['op'], req['resolved'])
    return handler

_ISO_CACHE = {}

def run_isolated(ops, cache=True, shim_names=()):
    """Every thread alone in its own pristine child, arguments built fresh.
    Returns (records, status) where status is None or a discard reason."""
    servants = {}
    iso = []
    status = None
    try:
        for idx, op in enumerate(ops):
            th = thread_of(op, idx)
            resolved = {}
            for j in refs_of(op):
                if 0 <= j < len(iso):
                    rj = iso[j]['r']
                    if isinstance(rj, list) and rj and rj[0] == 'expr':
                        rj = ['expr', rj[1], iso[j].get('rf', [[], []])]
                    resolved[str(j)] = rj
            if th[0] == 'o':
                key = json.dumps([dict((k, v) for k, v in op.items() if k != 'c'), resolved, list(shim_names)], sort_keys=True)
                rec = _ISO_CACHE.get(key) if cache else None
                if rec is None:
                    r = core.fork_call(_single, ({'idx': 0, 'op': op, 'resolved': resolved, 'shims': list(shim_names)},), CHILD_TIMEOUT)
                    if r.status != 'ok':
                        return None, 'iso-' + r.status + (':' + str(r.value)[:300] if r.status == 'died' else '')
                    rec = r.value
                    if cache and len(_ISO_CACHE) < 20000:
                        _ISO_CACHE[key] = rec
            else:
                sv = servants.get(th)
                if sv is None:
                    sv = servants[th] = core.Servant(lambda: _servant_factory(shim_names), CHILD_TIMEOUT)
                r = sv.call({'idx': idx, 'op': op, 'resolved': resolved})
                if r.status != 'ok':
                    return None, 'iso-' + r.status + (':' + str(r.value)[:300] if r.status == 'died' else '')
                rec = r.value
            iso.append(rec)
    finally:
        for sv in servants.values():
            sv.kill()
            sv.close()
    return iso, None

def compare(ops, inter, iso):
    """Oracles O1 (result independence), O2 (input preservation), O3 (tables).
    Returns a list of violation dicts, first = earliest."""
    v = []
    recs = inter['recs']
    for idx, op in enumerate(ops):
        a, b = recs[idx], iso[idx]
        if a['r'] == ['BUDGET'] or b['r'] == ['BUDGET']:
            # deterministic work bound hit: nothing after this point is compared
            return v, 'budget'
        if a['r'] != b['r']:
            v.append({'oracle': 'O1', 'class': 'O1:' + op['op'], 'idx': idx, 'inter': a['r'], 'iso': b['r']})
            # later ops of the same history may differ as a consequence: report the first only
            return v, None
        if a.get('mut'):
            v.append({'oracle': 'O2', 'class': 'O2:' + op['op'] + ':' + ','.join(a['mut']), 'idx': idx})
            return v, None
    if inter['watch']:
        w = inter['watch'][0]
        v.append({'oracle': 'O2', 'class': 'O2:history:' + w['kind'], 'idx': None, 'before': w['before'], 'after': w['after']})
        return v, None
    if inter['tables']:
        v.append({'oracle': 'O3', 'class': 'O3:' + ','.join(inter['tables'][:3]), 'idx': None, 'tables': inter['tables']})
    return v, None

def execute(ops, pristine, cache=True, shim_names=()):
    """One simulated run of an explicit op list.  Returns dict with keys
    status ('ok'|'discard'), violations, reason."""
    r = core.fork_call(run_interleaved, (ops, pristine, shim_names), CHILD_TIMEOUT)
    if r.status != 'ok':
        return {'status': 'discard', 'reason': 'inter-' + r.status + (':' + str(r.value)[:300] if r.status == 'died' else ''),
                'harness': r.status == 'died'}
    inter = r.value
    iso, why = run_isolated(ops, cache, shim_names)
    if iso is None:
        return {'status': 'discard', 'reason': why, 'harness': why.startswith('iso-died')}
    viol, note = compare(ops, inter, iso)
    return {'status': 'ok', 'violations': viol, 'note': note, 'inter': inter, 'iso': iso}

# --------------------------------------------------------------- generator

def _ids(s):
    regs = [canon.ser_expr(s.regs[n]) for n in gen.REGS32]
    inits = [canon.ser_expr(s.regs[n]) for n in gen.INITS32]
    return regs, inits

STEP_BYTES = [x for x in gen.BYTES_POOL]
REP_BYTES = ['f3a4', 'f3a5', 'f3ab', 'f3aa', 'f2ae', 'f3a6', 'f3a7', 'f3af']
STATE_BYTES = ['89d8', '8b4304', '894304', '884305', '668b4302', '66894302', '0fb64301', '50', '53', '5b', '59', '8f4308',
               'ff7304', '6a05', '8d4304', '93', '874304', 'b805000000', 'b903000000', 'b900000000', 'fc', 'fd',
               '8b0424', '890424', '8b442404', '89442404', '884c2405', '8b4c2403', '668b4c2401', '66895c2402',
               'a4', 'a5', 'aa', 'ab', 'ac', 'ad', '31c0', '01d8', '83c004', 'c9', '60', '61', '9c', '9d']

def gen_bind(rng, s, scenario):
    """Bindings of a custom machine: symbolic / constant / absent registers."""
    regs, inits = _ids(s)
    bind = []
    p_absent = rng.choice([0.0, 0.2, 0.5, 0.9])
    p_const = rng.choice([0.0, 0.3, 0.7])
    for n in gen.REGS32:
        if rng.random() < p_absent and scenario != 'rep':
            continue
        if rng.random() < p_const:
            bind.append([n, gen.r_int(rng.choice([0, 1, 3, 5, 0x1000, 0x2000, 0x3000, 0xffffffff]))])
        else:
            bind.append([n, canon.ser_expr(s.regs['init_' + n])])
    if scenario == 'rep':
        bind = [b for b in bind if b[0] not in ('ecx', 'esi', 'edi')]
        bind.append(['ecx', gen.r_int(rng.choice([0, 1, 2, 3, 4, 0x10002]))])
        bind.append(['esi', rng.choice([gen.r_int(0x2000), canon.ser_expr(s.regs['init_esi'])])])
        bind.append(['edi', rng.choice([gen.r_int(0x1000), canon.ser_expr(s.regs['init_edi'])])])
        bind.append(['df', gen.r_int(0)])
        if rng.random() < 0.8:
            bind.append(['tsc1', gen.r_int(rng.choice([0, 7]))])
        if rng.random() < 0.5:
            bind.append(['zf', gen.r_int(rng.choice([0, 1]))])
    else:
        for n in ('df', 'zf', 'cf', 'tsc1'):
            if rng.random() < 0.3:
                bind.append([n, gen.r_int(rng.choice([0, 1]))])
    return bind

def gen_history(rng):
    """The seeded swarm configuration and operation list of one run."""
    s = sut()
    regs, inits = _ids(s)
    ids = regs + regs + inits
    nclients = rng.choice([1, 2, 2, 3, 4])
    alias_p = rng.choice([0.0, 0.3, 0.9])
    scenario = rng.choice(['mixed', 'mixed', 'machines', 'machines', 'rep', 'stateless', 'asm'])
    nops = min(50, 2 + int(rng.expovariate(1 / 12.0)))
    bad_p = rng.choice([0.0, 0.1, 0.3])
    ref_p = rng.choice([0.0, 0.2, 0.5])
    ops = []
    machines = []           # (k, client)
    streams = []
    expr_results = []       # indices of ops returning an expression
    dis_results = []        # (idx, hex)
    lift_results = []       # indices of lift ops (their results may be kept and evaluated later)
    shared_binds = {}
    # small per-run pools so that collisions are frequent
    epool = [gen.gen_expr(rng, ids, rng.choice([1, 2, 3])) for _ in range(6)]
    if scenario in ('mixed', 'machines', 'rep') and rng.random() < 0.6:
        # closed query expressions (nothing a state could still bind: initial symbols and constants only) over cells
        # that the step instructions write: an evaluation that finds the cell unknown returns an EQUAL expression,
        # and the same object is asked again after a store, or on another machine that knows the cell
        def closed_query():
            ini = [x for x in inits if x[1] in ('init_ebx', 'init_esp', 'init_esi', 'init_edi')]
            base = rng.choice(ini) if (ini and rng.random() < 0.85) else ['I', 'uint32', rng.choice([0x1000, 0x200000])]
            d = rng.choice([0, 4, 5, 2, 8, 1, -4, -8, 3])
            a = base if d == 0 else (['O', '+', [base, ['I', 'uint32', d & 0xffffffff]]] if base[0] == 'D' else ['I', 'uint32', (base[2] + d) & 0xffffffff])
            q = ['M', a, rng.choice([32, 32, 16, 8]), None, False]
            if q[2] == 32 and rng.random() < 0.3:
                q = ['O', '+', [q, ['I', 'uint32', 1]]]
            return q
        epool += [closed_query() for _ in range(rng.choice([1, 2, 3]))]
    if rng.random() < 0.15:
        # a hand-built compose of odd total width with a constant slot (its simplification may raise), and slices of
        # constants of that width: whatever the first leaves behind must not change the second
        wd = rng.choice([24, 24, 40, 48])
        c = rng.choice([0x12345678, 0x80FF7F01])
        epool.append(['C', [[['S', rng.choice(regs), 0, 8], 0, 8], [['I', 'uint%d' % (wd - 8 if wd - 8 in (8, 16, 32, 64) else 16), 0x1234], 8, wd]]])
        epool.append(['C', [[['I', 'uint8', 5], 0, 8], [['S', ['I', 'uint32', c], 8, 32], 8, 32]]])
        epool.append(['S', ['I', 'uint64' if wd > 32 else 'uint32', c], 8, 8 + wd if wd + 8 <= 64 else 64])
    bpool = [rng.choice(gen.BYTES_POOL) for _ in range(3)] + [gen.gen_random_bytes(rng) for _ in range(2)] + gen.gen_family_pool(rng, rng.choice([4, 6, 8]))
    att_share = rng.choice([0.1, 0.5, 0.9])
    mtx = rng.sample(gen.ASM_MEMTXT, 3)
    lpool = [gen.gen_asm_line(rng, mtx) for _ in range(6)] + gen.gen_line_family(rng, False, 4)
    atx = rng.sample(gen.ATT_OPTXT, 3)
    apool = [gen.gen_att_line(rng, atx) for _ in range(6)] + ['ret', 'nop', 'scasb', 'cmpxchgl %ecx, (%edx)'] + gen.gen_line_family(rng, True, 4)
    def pick_expr():
        if expr_results and rng.random() < ref_p:
            return {'ref': rng.choice(expr_results)}
        if rng.random() < 0.7:
            return rng.choice(epool)
        return gen.gen_expr(rng, ids, rng.choice([1, 2, 3, 4]))
    roots = {}
    sid_of = {}
    closed_sids = set()
    def new_machine(c):
        k = len(machines)
        roots[k] = k
        kind = rng.choice(['x86', 'custom', 'custom']) if scenario != 'rep' else rng.choice(['custom', 'custom', 'x86'])
        op = {'op': 'new_machine', 'm': k, 'kind': kind, 'c': c}
        if kind == 'custom':
            reusable = sorted(x for x in shared_binds if x not in closed_sids)
            if reusable and rng.random() < max(alias_p, 0.2 if scenario == 'rep' else 0.0):
                sid = rng.choice(reusable)
                op['bind'] = shared_binds[sid]
                op['shared_bind'] = sid
            else:
                op['bind'] = gen_bind(rng, s, scenario)
                sid = len(shared_binds)
                shared_binds[sid] = op['bind']
                op['shared_bind'] = sid
        machines.append((k, c))
        sid_of[k] = op.get('shared_bind')
        ops.append(op)
        return k
    while len(ops) < nops:
        c = rng.randrange(nclients)
        shared = rng.random() < alias_p
        x = rng.random()
        if scenario == 'asm':
            pm = 0.0
            if rng.random() < 0.75:
                if rng.random() < att_share:
                    ops.append({'op': 'asm_att', 'line': rng.choice(apool) if rng.random() < 0.9 else rng.choice(gen.ATT_BAD), 'c': c})
                    continue
                if rng.random() < 0.8:
                    ops.append({'op': 'asm', 'line': rng.choice(lpool) if rng.random() < 0.85 else rng.choice(gen.INTEL_BAD), 'c': c})
                else:
                    ops.append({'op': 'asm_att', 'line': rng.choice(apool) if rng.random() < 0.85 else rng.choice(gen.ATT_BAD), 'c': c})
                continue
        if scenario == 'stateless':
            pm = 0.1
        elif scenario in ('machines', 'rep'):
            pm = 0.85
        else:
            pm = 0.6
        if x < pm:
            if not machines or (len(machines) < 4 and rng.random() < 0.15):
                new_machine(c)
                continue
            k = rng.choice(machines)[0]
            y = rng.random()
            if y < 0.04 and len(machines) < 5:
                k2 = len(machines)
                roots[k2] = roots[k]
                machines.append((k2, c))
                ops.append({'op': 'clone', 'm': k2, 'from': k, 'root': roots[k], 'c': c})
                continue
            if y < 0.30:
                ops.append({'op': 'eval', 'm': k, 'e': pick_expr(), 'shared': shared, 'c': c})
                expr_results.append(len(ops) - 1)
            elif y < 0.62:
                if scenario == 'rep' and rng.random() < 0.5:
                    hx = rng.choice(REP_BYTES)
                elif rng.random() < 0.7:
                    hx = rng.choice(STATE_BYTES)
                else:
                    hx = rng.choice(bpool)
                op = {'op': 'step', 'm': k, 'hex': hx, 'c': c}
                if scenario == 'rep' and rng.random() < 0.25:
                    op['mode'] = 16
                cands = [i for i, h in dis_results if h == hx] if 'mode' not in op else []
                if cands and shared:
                    op['iref'] = rng.choice(cands)
                ops.append(op)
            elif y < 0.74 and lift_results and rng.random() < 0.35:
                ops.append({'op': 'affs', 'm': k, 'affs': {'ref': rng.choice(lift_results)}, 'c': c})
            elif y < 0.74:
                n = rng.choice([1, 1, 2, 3])
                affs = []
                for _ in range(n):
                    if rng.random() < 0.6:
                        dst = rng.choice(regs)
                    else:
                        dst = ['M', ['O', '+', [rng.choice(ids), gen.r_int(rng.choice([0, 1, 2, 4, 8]))]], rng.choice([8, 16, 32]), None, False]
                    size = dst[2]
                    affs.append([dst, gen.gen_expr(rng, ids, 2, size) if size != 32 else pick_expr()])
                ops.append({'op': 'affs', 'm': k, 'affs': affs, 'shared': shared, 'c': c})
            elif y < 0.77 and sid_of.get(k) is not None and list(sid_of.values()).count(sid_of[k]) == 1:
                # (only for a dictionary no other machine was or will be built from: the isolated execution gives
                # every machine its own dictionary, so an edit between two constructions would differ legitimately)
                closed_sids.add(sid_of[k])
                mop = {'op': 'mutate_bind', 'm': k, 'reg': rng.choice(gen.REGS32), 'c': c}
                if rng.random() < 0.3:
                    mop['delete'] = 1
                else:
                    mop['val'] = gen.r_int(rng.choice([0, 7, 0x1234]))
                ops.append(mop)
            elif y < 0.88:
                ops.append({'op': 'get_reg', 'm': k, 'reg': rng.choice(gen.REGS32 + ['zf', 'cf', 'df', 'tsc1']), 'c': c})
                expr_results.append(len(ops) - 1)
            else:
                ops.append({'op': 'dump', 'm': k, 'c': c})
        else:
            y = rng.random()
            if y < 0.22:
                hx = rng.choice(gen.BYTES_BAD) if rng.random() < bad_p else rng.choice(bpool)
                op = {'op': 'dis', 'hex': hx, 'c': c}
                if rng.random() < 0.15:
                    op['mode'] = 16
                ops.append(op)
                if 'mode' not in op:
                    dis_results.append((len(ops) - 1, hx))
            elif y < 0.27 and dis_results:
                j, hx = rng.choice(dis_results)
                ops.append({'op': 'render', 'hex': hx, 'iref': j, 'c': c})
            elif y < 0.38:
                if rng.random() < bad_p:
                    line = rng.choice(gen.INTEL_BAD)
                elif rng.random() < 0.5:
                    line = rng.choice(lpool)
                else:
                    line = rng.choice(gen.INTEL_LINES)
                ops.append({'op': 'asm', 'line': line, 'c': c})
            elif y < 0.54:
                if rng.random() < bad_p:
                    line = rng.choice(gen.ATT_BAD)
                elif rng.random() < 0.4:
                    line = rng.choice(apool)
                else:
                    line = rng.choice(gen.ATT_LINES)
                ops.append({'op': 'asm_att', 'line': line, 'c': c})
            elif y < 0.72:
                hx = rng.choice(bpool)
                op = {'op': 'lift', 'hex': hx, 'eip': rng.choice([0, 0x1000, 0x12345678]), 'c': c}
                if rng.random() < 0.5:
                    op['shared_eip'] = True
                if rng.random() < 0.3:
                    op['segm'] = sorted(rng.sample(range(6), rng.choice([1, 2, 6])))     # indexes into x86_afs.reg_sg
                cands = [i for i, h in dis_results if h == hx]
                if cands and (shared or rng.random() < 0.5):
                    op['iref'] = rng.choice(cands)
                ops.append(op)
                lift_results.append(len(ops) - 1)
                if 'iref' in op and rng.random() < 0.5:
                    # the same instruction object lifted again, under other options
                    op2 = dict(op)
                    op2.pop('segm', None)
                    if rng.random() < 0.6:
                        op2['segm'] = sorted(rng.sample(range(6), rng.choice([1, 3, 6])))
                    ops.append(op2)
            elif y < 0.86:
                ops.append({'op': 'simp', 'e': pick_expr(), 'shared': shared, 'c': c})
                expr_results.append(len(ops) - 1)
            elif y < 0.92:
                eop = {'op': 'exprapi', 'fn': rng.choice(['copy', 'canonize', 'canonize', 'replace', 'visit']), 'e': pick_expr(), 'shared': shared, 'c': c}
                if eop['fn'] == 'replace':
                    eop['src'] = rng.choice(regs)
                    eop['dst'] = rng.choice(ids) if rng.random() < 0.5 else gen.r_int(rng.choice([0, 5]))
                ops.append(eop)
                expr_results.append(len(ops) - 1)
            else:
                if not streams or rng.random() < 0.3:
                    img = ''.join(rng.choice(bpool) for _ in range(rng.choice([1, 2, 4])))
                    ops.append({'op': 'new_stream', 's': len(streams), 'hex': img, 'off': 0, 'c': c})
                    streams.append(len(streams))
                else:
                    ops.append({'op': 'dis_stream', 's': rng.choice(streams), 'c': c})
    for op in ops:
        if 'm' in op and op['op'] in ('new_machine', 'eval', 'get_reg', 'dump', 'step', 'affs', 'clone', 'mutate_bind'):
            op['root'] = roots.get(op['m'], op['m'])
    call_styles(ops)
    cfg = {'clients': nclients, 'alias_p': alias_p, 'scenario': scenario, 'bad_p': bad_p, 'ref_p': ref_p}
    return cfg, ops

def call_styles(ops):
    """Second pass over a generated history: the same entry points in their other calling conventions (optional
    arguments left out or given explicitly, the read-only siblings of state-changing calls).  Drawn from a generator
    keyed by the history itself, so that the main stream of choices is what it was before this pass existed."""
    rng2 = random.Random(int(hashlib.sha256(json.dumps(ops, sort_keys=True).encode()).hexdigest()[:16], 16))
    p = rng2.choice([0.0, 0.3, 0.6])
    for op in ops:
        k = op['op']
        if rng2.random() >= p:
            continue
        if k == 'lift':
            op['noargs'] = 1            # get_instr_expr(l, eip): the operand list is the function's default
        elif k == 'eval' and rng2.random() < 0.5:
            op['nocache'] = 1           # eval_expr_no_cache(e): the evaluation cache is the function's default
        elif k == 'affs' and rng2.random() < 0.4:
            op['modonly'] = 1           # get_instr_mod(affs): evaluates against the state without committing
        elif k == 'dis' and 'mode' not in op:
            op['xattr'] = rng2.choice([0, 32])      # explicit (empty / fully spelt) attribute dictionary
        elif k == 'asm':
            op['symoff'] = 1            # explicit symbol-offset output list
    # calls that raise part-way: ill-typed expressions (a narrow operand meets a wide one, at the top or only after a
    # rewrite has happened), and bursts of one stateless call repeated - whatever a failure leaves behind accumulates
    pbad = rng2.choice([0.0, 0.0, 0.1, 0.3])
    prep = rng2.choice([0.0, 0.0, 0.05, 0.2])
    regs = [['D', n, 32, False, True] for n in gen.REGS32[:4]]
    for op in ops:
        k = op['op']
        if k in ('simp', 'eval', 'exprapi') and isinstance(op.get('e'), list) and rng2.random() < pbad:
            op['e'] = ill_typed(rng2, op['e'], regs)
            op['ill'] = 1
        if k in REPEATABLE and rng2.random() < prep:
            op['rep'] = rng2.choice([2, 3, 20, 40])
    if rng2.random() < 0.04 and not any(op['op'] in ('eval', 'affs') and isinstance(op.get('e', op.get('affs')), dict) for op in ops):
        # (histories whose later ops refer to earlier results by index keep their length)
        keep = ops[:8]
        if not any('ref' in json.dumps(op) for op in keep):
            ops[:] = keep + aging_block(rng2)
    if rng2.random() < 0.05:
        # a family the byte pools do not hold: instructions without architectural effect next to their x87 relatives
        # (nop / fnop / fwait / prefetch / ffree st(i) / ffreep st(i)) - lifts that return an empty or shared list
        fam = ['90', 'd9d0', '9b', 'ddc0', 'ddc1', 'dfc0', 'dfc1', '0f1808', '0f0d08', '6690', 'dfc0', '90']
        newhex = {}
        for i, op in enumerate(ops):
            if op.get('iref') is not None:
                if op['iref'] in newhex:
                    op['hex'] = newhex[op['iref']]          # (an op on a kept instruction object follows that object)
                continue
            if op['op'] in ('lift', 'dis', 'step') and 'mode' not in op and rng2.random() < 0.7:
                op['hex'] = rng2.choice(fam)
                op.pop('segm', None)
                if op['op'] == 'dis':
                    newhex[i] = op['hex']
    if rng2.random() < 0.15:
        # a retry storm: ONE ill-typed simplification repeated many times, early enough for later calls to feel it
        cands = [i for i, op in enumerate(ops[:max(1, len(ops) * 2 // 3)]) if op['op'] in ('simp', 'exprapi') and isinstance(op.get('e'), list)]
        if cands:
            op = ops[rng2.choice(cands)]
            op['e'] = ill_typed(rng2, op['e'], regs)
            op['ill'] = 1
            op['rep'] = rng2.choice([20, 40, 40, 64])

def aging_block(rng):
    """A long assembler history for whatever ages entries out: an operand text T is used, then 16-36 lines with
    pairwise distinct other operand texts go by, then T comes back in a line whose mnemonic makes the assembler edit
    the parsed operand (lea / push word / prefetch), then in ordinary lines again."""
    att = rng.random() < 0.3
    if att:
        T = rng.choice(['6(%ebp)', '64(%eax)', '4(%ebx,%ecx,2)'])
        users = ['movw %s, %%cx' % T, 'cmpb $1, %s' % T, 'movl %s, %%eax' % T]
        editors = ['leal %s, %%eax' % T, 'pushw %s' % T, 'prefetcht0 %s' % T]
        fill = ['movl %d(%%e%s), %%eax' % (8 * k + 100, rng.choice(['cx', 'dx', 'si', 'di'])) for k in range(40)]
        kind = 'asm_att'
    else:
        T = rng.choice(['[ebp+6]', '[eax+64]', '[ebx+ecx*2+4]'])
        users = ['mov cx, word ptr %s' % T, 'cmp byte ptr %s, 1' % T, 'mov eax, dword ptr %s' % T, 'mov cx, word ptr %s' % T]
        editors = ['lea eax, word ptr %s' % T, 'lea eax, %s' % T, 'push word ptr %s' % T, 'prefetcht0 byte ptr %s' % T, 'lea ecx, dword ptr %s' % T]
        fill = ['%s eax, %s ptr [e%s+%d]' % (rng.choice(['mov', 'add', 'cmp']), rng.choice(['dword', 'dword', 'word', 'byte']) if False else 'dword',
                                           rng.choice(['cx', 'dx', 'si', 'di']), 8 * k + 100) for k in range(40)]
        kind = 'asm'
    rng.shuffle(fill)
    n = rng.choice([16, 17, 20, 33, 36])
    lines = [rng.choice(users)] + fill[:n] + [rng.choice(editors)] + [rng.choice(users), rng.choice(users)]
    if rng.random() < 0.5:
        lines = [users[0], rng.choice(editors)] + lines
    return [{'op': kind, 'line': l, 'c': 0} for l in lines]

def ill_typed(rng, e, regs):
    narrow = rng.choice([['I', 'uint8', rng.choice([1, 2, 5])], ['S', rng.choice(regs), 0, 16], ['I', 'uint16', 0x100]])
    shape = rng.randrange(5)
    if shape == 0:
        return ['O', rng.choice(['+', '^', '&']), [e, narrow]]
    bad = ['O', '-', [['O', '+', [rng.choice(regs), narrow]]]]
    deep = ['O', '-', [['O', '+', [e, ['I', 'uint32', rng.choice([2, 3, 7])]]], ['O', '-', [rng.choice(regs), bad]]]]
    if shape == 1:
        return deep
    if shape == 2:
        return ['O', '-', [['I', 'uint32', rng.choice([0, 1, 9])], deep]]
    if shape == 3:
        return ['?', deep, e, rng.choice(regs)]
    return ['M', deep, 32, None, False]

# ------------------------------------------------------------- repair of refs

def renumber(ops, keep):
    """Sub-history made of the ops at positions `keep` (sorted); references to
    dropped steps are replaced by the fallback constant / dropped irefs."""
    pos = {old: new for new, old in enumerate(keep)}
    def fix(x):
        if isinstance(x, dict):
            if 'ref' in x and len(x) == 1:
                if x['ref'] in pos:
                    return {'ref': pos[x['ref']]}
                return FALLBACK
            return {k: fix(v) for k, v in x.items()}
        if isinstance(x, list):
            return [fix(v) for v in x]
        return x
    out = []
    for old in keep:
        op = dict(ops[old])
        for k in ('e', 'affs'):
            if k in op:
                op[k] = fix(op[k])
        if 'iref' in op:
            if op['iref'] in pos:
                op['iref'] = pos[op['iref']]
            else:
                del op['iref']
        out.append(op)
    # drop ops whose machine / stream was never created
    made_m, made_s, final = set(), set(), []
    keep2 = []
    for n, op in enumerate(out):
        if op['op'] == 'new_machine':
            made_m.add(op['m'])
        elif op['op'] == 'new_stream':
            made_s.add(op['s'])
        elif op['op'] == 'clone':
            if op['from'] not in made_m:
                continue
            made_m.add(op['m'])
        elif 'm' in op and thread_of(op, n)[0] == 'm' and op['m'] not in made_m:
            continue
        elif op['op'] == 'dis_stream' and op['s'] not in made_s:
            continue
        keep2.append(n)
    if len(keep2) != len(out):
        return renumber(out, keep2)
    return out

def minimise(ops, pristine, vclass, max_tests=120, shim_names=()):
    """ddmin on the op list under 'the same violation class still occurs when
    re-executed in fresh pristine children'."""
    def test(keep):
        cand = renumber(ops, keep)
        if not cand:
            return False
        res = execute(cand, pristine, cache=False, shim_names=shim_names)
        return res['status'] == 'ok' and any(v['class'] == vclass for v in res['violations'])
    keep = core.ddmin(list(range(len(ops))), test, max_tests)
    return renumber(ops, keep)
