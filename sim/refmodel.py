# Reference model for C07: an independent evaluator of the expression IR over a
# concrete valuation, and a concrete little-endian byte-addressed machine that
# executes lists of assignments with parallel-assignment semantics.  Works on
# canonical serialisations (plain lists), shares no code with miasmX.
import hashlib

class Unsupported(Exception):
    pass

M32 = 0xffffffff

def int_width(clsname):
    # 'uint32', 'int8', 'uint1', 'uint128'...
    digits = ''.join(ch for ch in clsname if ch.isdigit())
    if not digits:
        raise Unsupported('int class ' + clsname)
    return int(digits)

def width(s):
    t = s[0]
    if t == 'I':
        return int_width(s[1])
    if t == 'D':
        return s[2]
    if t == 'M':
        return s[2]
    if t == 'O':
        return width(s[2][0])
    if t == 'S':
        return s[3] - s[2]
    if t == 'C':
        return max(a[2] for a in s[1]) - min(a[1] for a in s[1])
    if t == '?':
        return width(s[2])
    if t == '=':
        return width(s[1])
    raise Unsupported('node ' + str(t))

def well_typed(s):
    """Width discipline of an IR tree (serialised): None if fine, else a short
    description of the first problem.  The reference masks every slot and
    operand, the real simplifier assumes well-typed input, so comparing them on
    ill-typed lifted semantics (a C11 matter) would be meaningless."""
    t = s[0]
    try:
        if t in ('I', 'D'):
            return None
        if t == 'M':
            return well_typed(s[1])
        if t == 'S':
            w = width(s[1])
            if not (0 <= s[2] < s[3] <= w):
                return 'slice [%d:%d] of a %d-bit value' % (s[2], s[3], w)
            return well_typed(s[1])
        if t == 'C':
            pos = None
            for e, a, b in sorted(s[1], key=lambda x: x[1]):
                # a value wider than its slot is truncated to the slot by convention (movsx, bswap, cwde are
                # lifted that way); the reference masks every slot accordingly
                if pos is not None and a != pos:
                    return 'compose slots not contiguous at %d' % a
                pos = b
                r = well_typed(e)
                if r:
                    return r
            return None
        if t == '?':
            if width(s[2]) != width(s[3]):
                return 'cond branches of %d and %d bits' % (width(s[2]), width(s[3]))
            for x in s[1:4]:
                r = well_typed(x)
                if r:
                    return r
            return None
        if t == '=':
            if width(s[1]) != width(s[2]) and s[2][0] != 'I' and not (s[1][0] == 'D' and s[1][2] <= 2):
                # (flags are 1-bit identifiers that hold 32-bit constants or wider expressions by convention)
                return '%d-bit value assigned to %d-bit destination' % (width(s[2]), width(s[1]))
            return well_typed(s[1]) or well_typed(s[2])
        if t == 'O':
            op, args = s[1], s[2]
            if op in ('+', '*', '^', '&', '|', '==') or (op == '-' and len(args) == 2):
                ws = set(width(a) for a in args if a[0] != 'I')
                if len(ws) > 1:
                    return 'operands of %s have widths %s' % (op, sorted(ws))
            for a in args:
                r = well_typed(a)
                if r:
                    return r
            return None
    except Unsupported:
        return None
    return None

def parity8(v):
    v &= 0xff
    c = 1
    while v:
        c ^= v & 1
        v >>= 1
    return c

class Evaluator(object):
    """ident(name, size) -> int ; mem(addr, bits) -> int (little endian)."""
    def __init__(self, ident, mem):
        self.ident, self.mem = ident, mem

    def ev(self, s):
        t = s[0]
        if t == 'I':
            w = int_width(s[1])
            return s[2] & ((1 << w) - 1)
        if t == 'D':
            return self.ident(s[1], s[2]) & ((1 << s[2]) - 1)
        if t == 'M':
            a = self.ev(s[1]) & M32
            return self.mem(a, s[2])
        if t == 'S':
            v = self.ev(s[1])
            return (v >> s[2]) & ((1 << (s[3] - s[2])) - 1)
        if t == 'C':
            lo = min(a[1] for a in s[1])
            out = 0
            for e, a, b in s[1]:
                out |= (self.ev(e) & ((1 << (b - a)) - 1)) << (a - lo)
            return out
        if t == '?':
            return self.ev(s[2]) if self.ev(s[1]) != 0 else self.ev(s[3])
        if t == 'O':
            return self.op(s[1], s[2])
        raise Unsupported('node ' + str(t))

    def op(self, op, args):
        w = width(args[0])
        mask = (1 << w) - 1
        if op in ('+', '*', '^', '&', '|'):
            vals = [self.ev(a) for a in args]
            acc = vals[0]
            for v in vals[1:]:
                if op == '+':
                    acc += v
                elif op == '*':
                    acc *= v
                elif op == '^':
                    acc ^= v
                elif op == '&':
                    acc &= v
                else:
                    acc |= v
            return acc & mask
        if op == '-':
            if len(args) == 1:
                return (-self.ev(args[0])) & mask
            if len(args) == 2:
                return (self.ev(args[0]) - self.ev(args[1])) & mask
            raise Unsupported('n-ary -')
        if op in ('<<', '>>', 'a>>'):
            a = self.ev(args[0]) & mask
            c = self.ev(args[1])
            if op == '<<':
                return (a << c) & mask if c < w else 0
            if op == '>>':
                return (a >> c) if c < w else 0
            sign = (a >> (w - 1)) & 1
            if c >= w:
                return mask if sign else 0
            r = a >> c
            if sign:
                r |= (mask << (w - c)) & mask
            return r & mask
        if op in ('<<<', '>>>'):
            a = self.ev(args[0]) & mask
            c = self.ev(args[1]) % w
            if c == 0:
                return a
            if op == '<<<':
                return ((a << c) | (a >> (w - c))) & mask
            return ((a >> c) | (a << (w - c))) & mask
        if op == '==':
            return 1 if (self.ev(args[0]) & mask) == (self.ev(args[1]) & mask) else 0
        if op == 'parity':
            return parity8(self.ev(args[0]))
        if op == '!':
            return (~self.ev(args[0])) & mask
        if op in ('double_to_mem_64', 'mem_64_to_double') and len(args) == 1 and w == 64:
            # uninterpreted 64-bit conversions (x87 store / load of a double): any fixed function serves; identity here
            return self.ev(args[0]) & mask
        if op in ('bsf', 'bsr') and len(args) == 1:
            # the machine keeps these symbolic; any fixed function of the operand serves (both sides use this one)
            v = self.ev(args[0]) & mask
            if v == 0:
                return 0
            return (v & -v).bit_length() - 1 if op == 'bsf' else v.bit_length() - 1
        raise Unsupported('op ' + op)


class InitialImage(object):
    """init_mem(a) = PRF(seed, a), defined lazily."""
    def __init__(self, seed):
        self.seed = seed
        self.cache = {}
    def byte(self, a):
        a &= M32
        blk = a >> 5
        b = self.cache.get(blk)
        if b is None:
            b = hashlib.sha256(('%d|%d' % (self.seed, blk)).encode()).digest()
            self.cache[blk] = b
        return b[a & 31]
    def read(self, a, bits):
        out = 0
        for i in range(bits // 8):
            out |= self.byte(a + i) << (8 * i)
        return out


class RefMachine(object):
    """Concrete machine: registers by name, memory as dict addr -> byte over the
    initial image."""
    def __init__(self, regs, image, symbols):
        self.regs = dict(regs)
        self.image = image
        self.symbols = symbols          # valuation of symbols that are not registers
        self.mem = {}
        self.touched = set()
        self.ev = Evaluator(self._ident, self.read)

    def _ident(self, name, size):
        if name in self.regs:
            return self.regs[name]
        if name in self.symbols:
            return self.symbols[name]
        raise Unsupported('identifier ' + name)

    def read(self, a, bits):
        if bits % 8:
            raise Unsupported('mem width %d' % bits)
        out = 0
        for i in range(bits // 8):
            x = (a + i) & M32
            b = self.mem.get(x)
            if b is None:
                b = self.image.byte(x)
            out |= b << (8 * i)
        return out

    def write(self, a, bits, v):
        if bits % 8:
            raise Unsupported('mem width %d' % bits)
        for i in range(bits // 8):
            x = (a + i) & M32
            self.mem[x] = (v >> (8 * i)) & 0xff
            self.touched.add(x)

    def exec_affs(self, affs):
        """Parallel assignment: all sources and destination addresses are
        evaluated against the pre-state, then all destinations are written."""
        pend = []
        for aff in affs:
            dst, src = aff[1], aff[2]
            v = self.ev.ev(src)
            if dst[0] == 'D':
                pend.append(('r', dst[1], dst[2], v))
            elif dst[0] == 'M':
                pend.append(('m', self.ev.ev(dst[1]) & M32, dst[2], v))
            else:
                raise Unsupported('dst ' + str(dst[0]))
        for kind, where, size, v in pend:
            if kind == 'r':
                self.regs[where] = v & ((1 << size) - 1)
            else:
                self.write(where, size, v)


class OutputEvaluator(object):
    """Meaning of an expression found in the real machine's state: identifiers
    are initial symbols (valuation), memory cells denote the INITIAL image."""
    def __init__(self, valuation, image):
        self.valuation, self.image = valuation, image
        self.ev = Evaluator(self._ident, self._mem)
    def _ident(self, name, size):
        if name in self.valuation:
            return self.valuation[name]
        raise Unsupported('free identifier in machine state: ' + name)
    def _mem(self, a, bits):
        if bits % 8:
            raise Unsupported('mem width %d' % bits)
        return self.image.read(a, bits)
    def value(self, s):
        return self.ev.ev(s)
