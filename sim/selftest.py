# Determinism self-test of the simulator (DESIGN 2.10): the same VERIF_SEED
# must give the same event-log digest (a) twice, (b) with another worker count,
# (c) with another hash seed for the HARNESS process.  Runs reduced batches of
# every check in fresh processes with a private evidence directory.
import os, sys, json, subprocess, tempfile, shutil, time
from . import core

BATCH = {'C07': ['--runs', '1500'], 'C10': ['--runs', '3000'], 'C12': ['--runs', '300'], 'C13': ['--runs', '2']}
VARIANTS = [
    ('baseline', {}),
    ('again', {}),
    ('workers=5', {'VERIF_WORKERS': '5'}),
    ('harness-hashseed=1', {'VERIF_HARNESS_HASHSEED': '1'}),
]

def digests(ev):
    c = ev['coverage']
    out = {}
    if 'log_digest' in c:
        out['log'] = c['log_digest']
    for wn, w in c.get('worlds', {}).items():
        out['log.' + wn] = w.get('log_digest')
    return out

def main(args):
    seeds = [int(x) for x in os.environ.get('VERIF_SELFTEST_SEEDS', '0,1,2').split(',')]
    props = [args.world] if args.world else sorted(BATCH)
    vcheck = os.path.join(core.VERIF_DIR, 'vcheck.py')
    bad = 0
    rows = []
    for prop in props:
        for seed in seeds:
            ref = None
            for name, extra in VARIANTS:
                d = tempfile.mkdtemp(prefix='selftest-', dir=core.workdir())
                env = dict(os.environ)
                env.pop('PYTHONHASHSEED', None)
                env.pop('VERIF_WORK', None)
                env.update({'VERIF_SEED': str(seed), 'VERIF_EVIDENCE_DIR': d, 'VERIF_REPLAY_DIR': os.path.join(d, 'replays')})
                env.update(extra)
                if 'VERIF_C07_SMALL' not in env:
                    env['VERIF_C07_SMALL'] = '300'
                t0 = time.monotonic()
                r = subprocess.run([core.PY, vcheck, prop] + BATCH[prop], env=env, stdout=subprocess.PIPE, stderr=subprocess.PIPE, timeout=3600)
                try:
                    with open(os.path.join(d, prop + '.json')) as f:
                        dg = digests(json.load(f))
                except Exception as e:
                    dg = {'error': '%s rc=%d %s' % (e, r.returncode, r.stdout.decode()[-300:])}
                shutil.rmtree(d, ignore_errors=True)
                same = None
                if ref is None:
                    ref = dg
                else:
                    same = (dg == ref) and 'error' not in dg
                    if not same:
                        bad += 1
                rows.append((prop, seed, name, r.returncode, same, dg, round(time.monotonic() - t0, 1)))
                print('%s seed=%d %-22s rc=%d same_as_baseline=%s %s (%.1fs)' % (prop, seed, name, r.returncode, same, json.dumps(dg)[:100], time.monotonic() - t0))
                sys.stdout.flush()
    out = os.path.join(core.VERIF_DIR, 'evidence', 'selftest_determinism.json')
    if not os.environ.get('VERIF_EVIDENCE_DIR'):
        with open(out, 'w') as f:
            json.dump({'rows': [{'property': p, 'seed': s, 'variant': n, 'rc': rc, 'same_as_baseline': sm, 'digests': dg, 'wall_s': w}
                                for p, s, n, rc, sm, dg, w in rows], 'mismatches': bad}, f, indent=1)
    if bad:
        print('HARNESS-ERROR determinism self-test: %d mismatching digests' % bad)
        return 2
    print('OK determinism self-test: %d runs, all digests equal per (property, seed)' % len(rows))
    return 0
