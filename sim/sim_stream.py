# C10 (stream clauses): the reader seam under simulation.  Byte images behind
# the three real bin_stream back ends, EOF / EIO faults, read log.  DESIGN 4.2.
import errno, random, json
from . import core, canon, gen
from .sim_calls import sut

class FakeFile(object):
    """In-process file object for bin_stream_file: logs every read, can fail
    the n-th read with EIO."""
    def __init__(self, data, eio_at=None):
        self.data = data
        self.pos = 0
        self.reads = []          # (pos, n_requested, n_delivered)
        self.eio_at = eio_at
        self.nread = 0
        self.eio_fired = False
    def fileno(self):
        return 99
    def seek(self, pos, whence=0):
        if whence == 0:
            self.pos = pos
        elif whence == 1:
            self.pos += pos
        else:
            self.pos = len(self.data) + pos
        return self.pos
    def tell(self):
        return self.pos
    def read(self, n=-1):
        self.nread += 1
        if self.eio_at is not None and self.nread == self.eio_at:
            self.eio_fired = True
            raise OSError(errno.EIO, 'injected EIO')
        if n < 0:
            n = len(self.data) - self.pos
        out = self.data[self.pos:self.pos + n]
        self.reads.append((self.pos, n, len(out)))
        self.pos += len(out)
        return out

class OsFile(object):
    """A real buffered OS file whose content was just WRITTEN through the very handle the stream gets and not
    flushed (the short-write / lost-write seam of a real disk: what the kernel holds lags behind what the process
    wrote).  Reads are logged like FakeFile's."""
    _n = [0]
    live = []
    def __init__(self, data, buffering):
        import os
        OsFile._n[0] += 1
        self.path = os.path.join(core.workdir(), 'osfile.%d.%d' % (os.getpid(), OsFile._n[0]))
        self.f = open(self.path, 'w+b', buffering=buffering)
        self.f.write(data)                   # no flush, position at the end
        self.data = data
        self.reads = []
        self.eio_fired = False
        OsFile.live.append(self)
    def fileno(self):
        return self.f.fileno()
    def seek(self, pos, whence=0):
        return self.f.seek(pos, whence)
    def tell(self):
        return self.f.tell()
    def read(self, n=-1):
        pos = self.f.tell()
        out = self.f.read(n)
        self.reads.append((pos, n, len(out)))
        return out
    def close(self):
        import os
        try:
            self.f.close()
        except Exception:
            pass
        try:
            os.unlink(self.path)
        except OSError:
            pass

def cleanup_osfiles():
    while OsFile.live:
        OsFile.live.pop().close()

class FakeVirt(object):
    """Callable address space for bin_stream_virt; with base > 0 a sparse image
    whose bytes live at [base, base+len) (e.g. a 64-bit image base)."""
    def __init__(self, data, base=0):
        self.data = data
        self.base = base
        self.reads = []
    def __len__(self):
        return self.base + len(self.data)
    def __call__(self, start, stop, section=None):
        a, b = start - self.base, stop - self.base
        out = self.data[max(a, 0):max(b, 0)] if b > 0 else b''
        if a < 0:
            out = b'\0' * (min(b, 0) - a) + out
        self.reads.append((a, stop - start, len(out)))
        return out
    def __getitem__(self, item):
        return self.data[item]

BACKENDS = ('str', 'file', 'virt', 'bytearray', 'file', 'virt', 'str', 'osfile')

def open_stream(kind, image, off, eio_at=None, base=0):
    """Returns (stream, backing) via the real bin_stream factory.  base != 0
    only for the virt back end: the stream is positioned at base+off."""
    s = sut()
    if kind == 'str':
        return s.B.bin_stream(image, off), None
    if kind == 'bytearray':
        return s.B.bin_stream(bytearray(image), off), None      # a mutable byte buffer must behave like bytes
    if kind == 'file':
        f = FakeFile(image, eio_at)
        return s.B.bin_stream(f, off), f
    if kind == 'osfile':
        f = OsFile(image, 4096 if len(image) % 2 else 64)
        return s.B.bin_stream(f, off), f
    v = FakeVirt(image, base)
    return s.B.bin_stream(v, base + off), v

def attrib_of(mode):
    s = sut()
    return {'opmode': s.A.u16} if mode == 16 else {}

def outcome(fn):
    """('ok', value) or ('exc', type name)."""
    try:
        return ('ok', fn())
    except RecursionError:
        return ('exc', 'RecursionError')
    except Exception as e:
        return ('exc', type(e).__name__)

def view(i):
    """What R1 compares: None-ness, length, bytes, both renderings, operands."""
    if i is None:
        return None
    v = canon.ser_instr(i)
    v.pop('offset', None)
    return v

def renders(v):
    return v is None or (not isinstance(v['intel'], list) and not isinstance(v['att'], list))

def dis_bytes(b, mode):
    s = sut()
    a = attrib_of(mode)
    return s.A.x86mnemo.dis(b, a) if a else s.A.x86mnemo.dis(b)

def check_decode(image, kind, off, mode, stats, eio_at=None, base=0, pristine=None):
    """One decode at offset off of image through back end kind, with all the
    oracles.  Returns None or a violation dict."""
    s = sut()
    suffix = image[off:]
    ref = outcome(lambda: view(dis_bytes(suffix, mode)))
    # open + decode through the stream
    try:
        st, backing = open_stream(kind, image, off, eio_at, base)
    except IOError:
        if off > len(image):
            stats['start-beyond-end:ioerror'] = stats.get('start-beyond-end:ioerror', 0) + 1
            return None
        return {'class': 'open-raises', 'detail': {'backend': kind, 'off': off, 'len': len(image)}}
    a = attrib_of(mode)
    got = outcome(lambda: s.A.x86mnemo.dis(st, a) if a else s.A.x86mnemo.dis(st))
    if eio_at is not None and backing is not None and getattr(backing, 'eio_fired', False):
        stats['eio-fired'] = stats.get('eio-fired', 0) + 1
        # relaxed on purpose: None or a propagated OSError, nothing else
        if (got[0] == 'ok' and got[1] is None) or (got[0] == 'exc' and got[1] in ('OSError', 'IOError')):
            # the fault was transient: the client seeks back and asks again on the SAME stream object - now the
            # answer must be the ordinary one (nothing of the failed attempt may stick to the stream or the decoder)
            if ref[0] == 'ok':
                try:
                    st.offset = base + off
                except Exception:
                    return {'class': 'eio:retry-cannot-reposition', 'detail': {'backend': kind, 'off': off, 'eio_at': eio_at}}
                again = outcome(lambda: view(s.A.x86mnemo.dis(st, a) if a else s.A.x86mnemo.dis(st)))
                stats['eio-retried'] = stats.get('eio-retried', 0) + 1
                if again != ref:
                    return {'class': 'eio:retry-differs', 'detail': {'backend': kind, 'off': off, 'eio_at': eio_at, 'mode': mode,
                                                                     'again': again[1] if again[0] == 'exc' else 'differs'}}
                if again[1] is not None and st.offset != base + off + again[1]['l']:
                    return {'class': 'eio:retry-stream-not-after-instruction', 'detail': {'backend': kind, 'off': off, 'eio_at': eio_at}}
            return None
        if got[0] == 'ok':
            return {'class': 'eio:instruction-from-undelivered-bytes', 'detail': {'backend': kind, 'off': off, 'eio_at': eio_at}}
        return {'class': 'eio:' + got[1], 'detail': {'backend': kind, 'off': off, 'eio_at': eio_at}}
    if ref[0] == 'exc':
        # totality defect on these bytes (out of scope, tallied): R4 same failure
        stats['out_of_scope'] = stats.get('out_of_scope', {})
        key = 'dis-raises:' + ref[1]
        stats['out_of_scope'][key] = stats['out_of_scope'].get(key, 0) + 1
        if got[0] == 'exc' and got[1] == ref[1]:
            return None
        if got[0] == 'ok' and got[1] is None and off >= len(image):
            return None
        return {'class': 'R4:different-failure', 'detail': {'backend': kind, 'off': off, 'ref': ref[1], 'got': got[1] if got[0] == 'exc' else 'no exception'}}
    refv = ref[1]
    if got[0] == 'exc':
        return {'class': 'R4:stream-raises:' + got[1], 'detail': {'backend': kind, 'off': off, 'mode': mode}}
    i = got[1]
    gotv = view(i)
    if not renders(refv):
        key = 'render-raises:%s/%s' % (refv['intel'][1] if isinstance(refv['intel'], list) else '-', refv['att'][1] if isinstance(refv['att'], list) else '-')
        stats['out_of_scope'] = stats.get('out_of_scope', {})
        stats['out_of_scope'][key] = stats['out_of_scope'].get(key, 0) + 1
    if gotv != refv:
        return {'class': 'R1:suffix-equivalence', 'detail': {'backend': kind, 'off': off, 'mode': mode, 'ref': refv, 'got': gotv}}
    if pristine is not None:
        # history independence of the decoder inside this process: the same suffix decoded in a pristine
        # process (memoised by the <= 16 bytes a decode can consume) must give the same instruction
        pv = pristine(suffix[:16], mode, len(suffix) > 16)
        if pv is not None and pv != ('ok', refv):
            stats['pristine-mismatch'] = stats.get('pristine-mismatch', 0) + 1
            return {'class': 'R1:differs-from-pristine-process', 'detail': {'off': off, 'mode': mode, 'bytes': suffix[:16].hex(),
                                                                             'pristine': pv[1], 'here': refv}}
        stats['pristine-checked'] = stats.get('pristine-checked', 0) + 1
    if i is None:
        stats['decode-none'] = stats.get('decode-none', 0) + 1
        return None
    stats['decode-ok'] = stats.get('decode-ok', 0) + 1
    l = i.l
    if i.offset != base + off:
        return {'class': 'R1:offset-not-recorded', 'detail': {'backend': kind, 'off': off, 'base': base, 'recorded': canon.ser_val(i.offset)}}
    if st.offset != base + off + l:
        return {'class': 'R1:stream-not-after-instruction', 'detail': {'backend': kind, 'off': off, 'base': base, 'l': l, 'stream_offset': canon.ser_val(st.offset)}}
    if bytes(i.b) != image[off:off + l]:
        return {'class': 'R1:bytes', 'detail': {'backend': kind, 'off': off, 'l': l}}
    # R2: no over-read
    if backing is not None:
        for pos, n, d in backing.reads:
            if pos + n > off + l:
                return {'class': 'R2:over-read', 'detail': {'backend': kind, 'off': off, 'l': l, 'read': [pos, n]}}
    exact = outcome(lambda: view(dis_bytes(image[off:off + l], mode)))
    if exact != ('ok', refv):
        return {'class': 'R2:extension-invariance', 'detail': {'off': off, 'l': l, 'mode': mode, 'exact': exact[1] if exact[0] == 'exc' else 'differs'}}
    # R3 / R4: truncation at every length, through the same back end
    for k in range(l):
        cut = image[:off + k]
        try:
            st2, b2 = open_stream(kind, cut, off, None, base)
        except IOError:
            return {'class': 'R3:open-raises', 'detail': {'backend': kind, 'off': off, 'cut': k}}
        t = outcome(lambda: s.A.x86mnemo.dis(st2, a) if a else s.A.x86mnemo.dis(st2))
        stats['eof-fired'] = stats.get('eof-fired', 0) + 1
        if t[0] == 'exc':
            return {'class': 'R4:truncated-raises:' + t[1], 'detail': {'backend': kind, 'off': off, 'l': l, 'cut': k, 'mode': mode}}
        if t[1] is not None:
            return {'class': 'R3:truncated-not-absent', 'detail': {'backend': kind, 'off': off, 'l': l, 'cut': k, 'mode': mode,
                                                                   'got_l': t[1].l}}
        cf = stats.setdefault('cut_fields', {})
        key = '%s/%d-of-%d' % (kind, k, l)
        cf[key] = cf.get(key, 0) + 1
    return None

# ------------------------------------------------------------ run = sweep

def run_ops(image, ops, pristine=None):
    """Execute a list of stream ops (several clients interleaved), each decode
    checked.  Streams live across ops; returns (violation or None, stats)."""
    s = sut()
    stats = {}
    streams = {}
    img = {}
    handles = {}
    bases = {}
    cleanup_osfiles()
    # one attribute dictionary kept by the clients of this run and switched between 16- and 32-bit mode in place
    shared_attr = {} if (len(ops) % 3 == 0) else None
    for n, op in enumerate(ops):
        c = op['c']
        if op['op'] == 'share':
            # client c from now on uses the very stream object of another client
            if op['of'] in streams:
                streams[c] = streams[op['of']]
                img[c] = img[op['of']]
                bases[c] = bases.get(op['of'], 0)
                stats['stream-shared'] = stats.get('stream-shared', 0) + 1
            continue
        if op['op'] == 'open':
            data = image[:op['eof']] if op.get('eof') is not None else image
            img[c] = (data, op['kind'])
            try:
                prev = handles.get(op.get('reuse'))
                if op['kind'] in ('file', 'osfile') and prev is not None and prev.data == data:
                    # a second stream over the SAME file handle, wherever earlier reads left it
                    streams[c] = (s.B.bin_stream(prev, op['off']), prev)
                    stats['handle-reused'] = stats.get('handle-reused', 0) + 1
                else:
                    streams[c] = open_stream(op['kind'], data, op['off'], None, op.get('base', 0) if op['kind'] == 'virt' else 0)
                bases[c] = op.get('base', 0) if op['kind'] == 'virt' else 0
                if op['kind'] == 'osfile':
                    stats['osfile:unflushed-write'] = stats.get('osfile:unflushed-write', 0) + 1
                if op['kind'] in ('file', 'osfile'):
                    handles[c] = streams[c][1]
                if streams[c][0].offset != bases[c] + op['off']:
                    return {'class': 'R1:open-not-positioned', 'op': n, 'detail': {'backend': op['kind'], 'off': op['off'],
                                                                                   'stream_offset': canon.ser_val(streams[c][0].offset)}}, stats
            except IOError:
                streams.pop(c, None)
                if op['off'] <= len(data):
                    return {'class': 'open-raises', 'op': n, 'detail': {'backend': op['kind'], 'off': op['off'], 'len': len(data)}}, stats
                stats['start-beyond-end:ioerror'] = stats.get('start-beyond-end:ioerror', 0) + 1
            if op.get('eof') is not None:
                stats['eof-open'] = stats.get('eof-open', 0) + 1
        elif op['op'] == 'seek':
            if c in streams:
                st = streams[c][0]
                want = bases.get(c, 0) + op['off']
                if want < 0:
                    # a resync target before the start of the buffer (e.g. a backward branch computed from a signed
                    # displacement): setoffset() wraps it to a huge position, from which nothing can be decoded
                    st.setoffset(want)
                    want &= 0xFFFFFFFF
                elif op.get('via') == 'attr' or want > 0xFFFFFFFF:   # setoffset() is documented to wrap at 4 GiB
                    st.offset = want
                else:
                    st.setoffset(want)
                if st.offset != want:
                    return {'class': 'R1:seek-not-honoured', 'op': n, 'detail': {'backend': img[c][1], 'requested': op['off'],
                                                                                 'stream_offset': canon.ser_val(st.offset)}}, stats
        elif op['op'] == 'dis':
            if c not in streams:
                continue
            st, backing = streams[c]
            data, kind = img[c]
            base = bases.get(c, 0)
            off = st.offset - base
            if off < 0:
                continue
            mode = op.get('mode')
            # the checked decode works on a fresh stream at the same offset (oracles need the read log
            # from zero); then the client's own long-lived stream performs the same decode and must agree
            v = check_decode(data, kind, off, mode, stats, op.get('eio_at'), base, pristine if op.get('px') else None)
            if v:
                v['op'] = n
                return v, stats
            a = attrib_of(mode)
            if shared_attr is not None:
                shared_attr['opmode'] = s.A.u16 if mode == 16 else s.A.u32
                a = shared_attr
                stats['shared-attrib-dict'] = stats.get('shared-attrib-dict', 0) + 1
            mine = outcome(lambda: s.A.x86mnemo.dis(st, a) if a else s.A.x86mnemo.dis(st))
            fresh = outcome(lambda: dis_bytes(data[off:], mode))
            if mine[0] != fresh[0] or (mine[0] == 'exc' and mine[1] != fresh[1]):
                return {'class': 'R4:long-lived-stream-differs', 'op': n, 'detail': {'backend': kind, 'off': off}}, stats
            if mine[0] == 'ok':
                if view(mine[1]) != view(fresh[1]):
                    return {'class': 'R1:long-lived-stream-differs', 'op': n, 'detail': {'backend': kind, 'off': off}}, stats
                if mine[1] is not None:
                    if st.offset != base + off + mine[1].l:
                        return {'class': 'R1:stream-not-after-instruction', 'op': n, 'detail': {'backend': kind, 'off': off, 'long_lived': True}}, stats
                    if mine[1].offset != base + off:
                        return {'class': 'R1:offset-not-recorded', 'op': n, 'detail': {'backend': kind, 'off': off, 'long_lived': True}}, stats
                else:
                    # failed decode leaves the offset unspecified: resynchronise the client one byte further
                    try:
                        st.offset = base + min(off + 1, len(data))
                    except Exception:
                        pass
            else:
                try:
                    st.offset = base + min(off + 1, len(data))
                except Exception:
                    pass
    return None, stats

# ------------------------------------------------------------ generators

_ASM = {}
def asm_hex(line, att=False):
    s = sut()
    k = (line, att)
    if k not in _ASM:
        try:
            c = s.A.x86mnemo.asm_att(line) if att else s.A.x86mnemo.asm(line)
            _ASM[k] = [x.hex() for x in c if isinstance(x, (bytes, bytearray))]
        except Exception:
            _ASM[k] = []
    return _ASM[k]

MODRM_CLASSES = [0x00, 0x04, 0x05, 0x40, 0x44, 0x45, 0x80, 0x84, 0x85, 0xc0, 0x24, 0x64, 0xa4, 0x0c, 0x4d, 0x9d]
def structured(rng):
    out = []
    npre = rng.choice([0, 0, 0, 1, 1, 2, 3])
    if rng.random() < 0.04:
        npre = rng.randrange(4, 14)          # redundant prefix runs: instructions of 16 bytes and more
    pre = rng.choice([0x66, 0x67, 0xf2, 0xf3, 0xf0, 0x2e, 0x36, 0x3e, 0x26, 0x64, 0x65])
    for _ in range(npre):
        out.append(pre if npre >= 4 and rng.random() < 0.8 else rng.choice([0x66, 0x67, 0xf2, 0xf3, 0xf0, 0x2e, 0x36, 0x3e, 0x26, 0x64, 0x65]))
    k = rng.random()
    if rng.random() < 0.04:
        # the wait-prefixed x87 idiom (fstcw / fstsw / fclex / finit are 9B + an escape opcode): a one-byte instruction
        # directly followed by an escape byte and a ModRM byte of its own
        out += [0x9b, rng.choice([0xd9, 0xdb, 0xdb, 0xdd, 0xdf, 0xd8]), rng.choice([0xe2, 0xe3, 0xe0, 0x3c, 0x7c, 0x2d, 0xe4, rng.randrange(256)])]
        for _ in range(rng.randrange(0, 6)):
            out.append(rng.choice([0x24, 0, 1, 0xff, rng.randrange(256)]))
        return bytes(out)
    if npre >= 4 and rng.random() < 0.7:
        out += rng.choice([[0xa1], [0x81, 0x84, 0x24], [0x9a], [0xc7, 0x84, 0x24], [0x69, 0x84, 0x24], [0xe8], [0xb8]])
    elif k < 0.6:
        out.append(rng.randrange(256))
    elif k < 0.9:
        out += [0x0f, rng.randrange(256)]
    else:
        out += [0x0f, rng.choice([0x38, 0x3a]), rng.randrange(256)]
    m = rng.choice(MODRM_CLASSES) | (rng.randrange(8) << 3) | (rng.randrange(8) if rng.random() < 0.5 else 0)
    out.append(m & 0xff)
    if (m & 7) == 4 and (m >> 6) != 3:
        out.append(rng.choice([0x24, 0x25, 0x0d, 0x8d, 0xe5, rng.randrange(256)]))
    for _ in range(rng.randrange(0, 9)):
        out.append(rng.choice([0, 1, 0x7f, 0x80, 0xff, rng.randrange(256)]))
    return bytes(out)

def gen_image(rng):
    parts = []
    n = rng.choice([1, 2, 3, 5, 8, 12, 20])
    for _ in range(n):
        k = rng.random()
        if k < 0.40:
            line = rng.choice(gen.INTEL_LINES)
            c = asm_hex(line)
            parts.append(bytes.fromhex(rng.choice(c)) if c else b'\x90')
        elif k < 0.50:
            c = asm_hex(rng.choice(gen.ATT_LINES), True)
            parts.append(bytes.fromhex(rng.choice(c)) if c else b'\x90')
        elif k < 0.62:
            parts.append(bytes.fromhex(rng.choice(gen.BYTES_POOL)))
        elif k < 0.92:
            parts.append(structured(rng))
        else:
            parts.append(bytes(rng.randrange(256) for _ in range(rng.randrange(1, 6))))
    img = b''.join(parts)[:512]
    bounds = []
    o = 0
    for p in parts:
        bounds.append(o)
        o += len(p)
    bounds = [b for b in bounds if b < len(img)]
    if rng.random() < 0.06:
        # far image: the interesting bytes sit beyond 64 KiB (offset arithmetic / masking)
        pad = 0x10000 + rng.randrange(0, 64)
        img = b'\x90' * pad + img
        bounds = [pad + b for b in bounds]
    # block-boundary placement (keyed by the image itself, the main stream of choices is untouched): one instruction
    # of the image straddles a multiple of 2^k - where a back end that fetches, buffers or maps by blocks changes block
    r2 = random.Random('straddle/' + img.hex())
    if r2.random() < 0.08 and len(bounds) >= 2:
        j = r2.randrange(len(bounds) - 1)
        b, l = bounds[j], bounds[j + 1] - bounds[j]
        if l >= 2:
            k = r2.choice([6, 9, 12, 12, 13, 16])
            d = r2.randrange(1, l)
            pad = ((1 << k) - d - b) % (1 << k)
            img = b'\x90' * pad + img
            bounds = [pad + x for x in bounds]
    return img, bounds

def gen_run(rng):
    image, bounds = gen_image(rng)
    nclients = rng.choice([1, 1, 2, 3])
    fault_p = rng.choice([0.0, 0.1, 0.3])
    px_p = rng.choice([0.0, 0.0, 0.5])
    ops = []
    for c in range(nclients):
        kind = rng.choice(BACKENDS)
        lo = max(0, min(bounds) - 8) if bounds else 0
        start = rng.choice(bounds) if rng.random() < 0.7 else rng.randrange(lo, len(image) + 1)
        op = {'op': 'open', 'c': c, 'kind': kind, 'off': start}
        if kind == 'virt' and rng.random() < 0.25:
            op['base'] = rng.choice([0x100000000, 0x140000000, 0xFFFFFFF0, 0x7FFFFFFF0])   # sparse image at / beyond 4 GiB
        if rng.random() < fault_p:
            op['eof'] = rng.randrange(lo, len(image) + 1)
            if rng.random() < 0.3:
                op['off'] = op['eof'] + rng.choice([0, 0, 1, 5])     # start at / beyond the end
        ops.append(op)
    nsteps = min(40, 2 + int(rng.expovariate(1 / 10.0)))
    for _ in range(nsteps):
        c = rng.randrange(nclients)
        k = rng.random()
        if k < 0.75:
            op = {'op': 'dis', 'c': c}
            if rng.random() < px_p:
                op['px'] = 1
            if rng.random() < 0.12:
                op['mode'] = 16
            if rng.random() < fault_p * 0.5:
                op['eio_at'] = rng.randrange(1, 8)
            ops.append(op)
        elif k < 0.9:
            if rng.random() < 0.08:
                ops.append({'op': 'seek', 'c': c, 'off': -rng.randrange(1, 40), 'via': 'set'})
            else:
                ops.append({'op': 'seek', 'c': c, 'off': rng.choice(bounds) if rng.random() < 0.6 else rng.randrange(lo, len(image) + 1),
                            'via': rng.choice(['set', 'attr'])})
        elif k < 0.93 and nclients > 1:
            ops.append({'op': 'share', 'c': c, 'of': rng.choice([x for x in range(nclients) if x != c])})
        else:
            op = {'op': 'open', 'c': c, 'kind': rng.choice(BACKENDS), 'off': rng.choice(bounds + [0, 0])}
            if rng.random() < 0.5:
                op['reuse'] = rng.randrange(nclients)
            if rng.random() < 0.4:
                op['eof'] = rng.randrange(lo, len(image) + 1)         # truncate-and-reopen
            ops.append(op)
    if bounds and rng.random() < 0.15:
        # window probe: a decode 2^k - d bytes before an instruction, then that instruction, on one long-lived stream
        # (whatever was read ahead, buffered or remembered by the first decode ends d bytes into the second)
        c = rng.randrange(nclients)
        for _ in range(rng.choice([1, 2, 3])):
            b = rng.choice(bounds)
            ks = [k for k in range(3, 14) if b + 1 - (1 << k) >= 0]
            if not ks:
                continue
            k = rng.choice(ks)
            d = rng.choice([1, 1, 2, 3])
            ops.append({'op': 'seek', 'c': c, 'off': max(0, b + d - (1 << k)), 'via': 'set'})
            ops.append({'op': 'dis', 'c': c})
            ops.append({'op': 'seek', 'c': c, 'off': b, 'via': rng.choice(['set', 'attr'])})
            ops.append({'op': 'dis', 'c': c})
    cfg = {'clients': nclients, 'fault_p': fault_p, 'image_len': len(image)}
    return cfg, image.hex(), ops
