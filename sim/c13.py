# C13 driver: simplifier output / renderings / dumps are identical across fresh
# interpreters differing in PYTHONHASHSEED and allocation pattern (DESIGN 4.4).
import os, sys, json, subprocess, time, random, tempfile
from . import core, runner, gen13

TIERS = {'quick': {'workloads': 12, 'items': 1200, 'hashseeds': 8, 'extra_random': 0},
         'thorough': {'workloads': 40, 'items': 1500, 'hashseeds': 32, 'extra_random': 4}}
WORKER = os.path.join(os.path.dirname(os.path.abspath(__file__)), 'hashseed_worker.py')

def launch(tmpdir, wseed, nitems, hashseed, noise_seed, items_file=None, timeout=1200):
    env = dict(os.environ)
    env['PYTHONHASHSEED'] = str(hashseed)
    env['PYTHONDONTWRITEBYTECODE'] = '1'
    env['TMPDIR'] = tmpdir
    cmd = [core.PY, WORKER, core.REPO, tmpdir, str(wseed), str(nitems), str(noise_seed)]
    if items_file:
        cmd += ['--items', items_file]
    try:
        r = subprocess.run(cmd, env=env, stdout=subprocess.PIPE, stderr=subprocess.PIPE, timeout=timeout)
    except subprocess.TimeoutExpired:
        return None, 'timeout'
    if r.returncode != 0:
        return None, 'rc=%d %s' % (r.returncode, r.stderr.decode()[-1500:])
    out = []
    for line in r.stdout.decode().split('\n'):
        if line.startswith('['):
            out.append(json.loads(line))
    return out, None

def hashseeds_for(tier, seed):
    t = TIERS[tier]
    hs = list(range(t['hashseeds']))
    rng = random.Random(core.run_seed('C13', 'hs', 0, seed))
    for _ in range(t['extra_random']):
        hs.append(rng.randrange(1 << 32))
    return hs

def is_bad(res):
    return isinstance(res, str)

def shrink_candidates(item):
    """Smaller variants of an item (for minimisation)."""
    out = []
    if item['kind'] in ('simp', 'sets'):
        e = item['e']
        def subs(x):
            if not isinstance(x, list) or not x:
                return
            t = x[0]
            kids = []
            if t == 'O':
                kids = x[2]
            elif t in ('M', 'S'):
                kids = [x[1]]
            elif t == 'C':
                kids = [a[0] for a in x[1]]
            elif t == '?':
                kids = [x[1], x[2], x[3]]
            for k in kids:
                yield k
        for k in subs(e):
            it = {'kind': item['kind'], 'e': k}
            out.append(it)
        if e[0] == 'O' and len(e[2]) > 2:
            for i in range(len(e[2])):
                out.append({'kind': item['kind'], 'e': ['O', e[1], e[2][:i] + e[2][i + 1:]]})
    elif item['kind'] == 'emul':
        ls = item['lines']
        for i in range(len(ls)):
            if len(ls) > 1:
                out.append({'kind': 'emul', 'lines': ls[:i] + ls[i + 1:]})
    return out

def differs_once(tmpdir, item, h0, h1, n0, n1):
    fd, path = tempfile.mkstemp(prefix='item-', suffix='.json', dir=tmpdir)
    with os.fdopen(fd, 'w') as f:
        json.dump([item], f)
    try:
        a, ea = launch(tmpdir, 0, 1, h0, n0, path, 300)
        b, eb = launch(tmpdir, 0, 1, h1, n1, path, 300)
    finally:
        os.unlink(path)
    if a is None or b is None or not a or not b:
        return False, None, None
    ra, rb = a[0][2], b[0][2]
    if ra in ('BUDGET', 'ALARM') or rb in ('BUDGET', 'ALARM'):
        return False, ra, rb
    return ra != rb, ra, rb

NOISE_TRIES = 6
def differs(tmpdir, item, h0, h1, n0, n1, key=None):
    """One item in two fresh interpreters.  A difference that comes from object
    addresses depends on the allocation pattern, which a single-item replay
    cannot reproduce bit for bit: the pair is tried under NOISE_TRIES seeded
    allocation patterns and must differ under at least two of them."""
    votes, first = 0, (None, None)
    for k in range(NOISE_TRIES):
        d, ra, rb = differs_once(tmpdir, item, h0, h1, n0 + k, n1 + 7919 * (k + 1))
        if d:
            votes += 1
            if first == (None, None):
                first = (ra, rb)
            if votes >= 2:
                break
    return votes >= 2, first[0], first[1]

def clause_fails(tmpdir, item, which, prefix=()):
    """Does the generated-input clause `which` fail on `item` in a fresh interpreter - after the items of
    `prefix` were executed in the same interpreter (a failure may depend on what the process did before)?"""
    fd, path = tempfile.mkstemp(prefix='item-', suffix='.json', dir=tmpdir)
    with os.fdopen(fd, 'w') as f:
        json.dump(list(prefix) + [item], f)
    try:
        a, ea = launch(tmpdir, 0, 1, 0, 0, path, 600)
    finally:
        os.unlink(path)
    if not a or len(a) != len(prefix) + 1 or is_bad(a[-1][2]):
        return False, None
    r = a[-1][2]
    if which == 'idempotence':
        return (not r.get('idem', True)), r
    if which == 'sharing-sensitivity':
        return (not r.get('interned_equal', True)), r
    if which == 'rerun-differs':
        return (not r.get('rerun_equal', True)), r
    return (not all(r.get('variants_equal', []))), r

def minimise_item(item, test):
    cur = item
    changed = True
    n = 0
    while changed and n < 60:
        changed = False
        for cand in shrink_candidates(cur):
            n += 1
            if test(cand):
                cur = cand
                changed = True
                break
    return cur

def main(args):
    core.workdir()
    tmpdir = os.path.join(core.workdir(), 'tmp')
    core.prewarm_tmpdir(tmpdir)
    if args.replay:
        return replay(args.replay, tmpdir)
    tier = args.tier if args.tier in TIERS else 'quick'
    seed = core.base_seed()
    t = TIERS[tier]
    batch = runner.Batch('C13', tier, seed)
    hs = hashseeds_for(tier, seed)
    nwl = args.runs or t['workloads']
    jobs = []
    for w in range(nwl):
        wseed = core.run_seed('C13', 'workload', w, seed)
        for h in hs:
            jobs.append((w, wseed, h, core.run_seed('C13', 'noise', w * 100003 + (h % 100003), seed)))
    def run_job(k):
        w, wseed, h, nz = jobs[k]
        out, err = launch(tmpdir, wseed, t['items'], h, nz)
        if out is None:
            return {'err': err}
        return {'log': out}
    recs = core.parallel_runs(run_job, list(range(len(jobs))))
    items_compared = 0
    dropped = {}
    distinct = set()
    nontrivial = set()
    kinds = {}
    clause_counts = {'idempotence_checked': 0, 'order_variants_checked': 0}
    viol = []       # (class, item, w, h, noise0, noise1, detail)
    samples = []
    digests = []
    for w in range(nwl):
        wseed = core.run_seed('C13', 'workload', w, seed)
        items = gen13.workload(wseed, t['items'])
        logs = {}
        for k, (jw, _, h, nz) in enumerate(jobs):
            if jw != w:
                continue
            r = recs[k]
            if 'err' in r or '_harness_error' in r:
                batch.harness_errors.append('interpreter hashseed=%s workload=%d: %s' % (h, w, r.get('err') or r.get('_harness_error')))
                continue
            logs[h] = (r['log'], nz)
        if hs[0] not in logs:
            continue
        ref, nz0 = logs[hs[0]]
        if len(ref) != len(items):
            batch.harness_errors.append('short log for workload %d' % w)
            continue
        digests.append([w, core.digest(ref)[:16]])
        # items unusable for comparison: budget / exception in ANY interpreter
        bad = set()
        per_item = {}
        for h, (lg, nz) in logs.items():
            for idx, kind, res in lg:
                if is_bad(res):
                    per_item.setdefault(idx, {})[h] = res
        for idx, byh in per_item.items():
            vals = set(byh.values())
            work_bound = any(v in ('BUDGET', 'ALARM') for v in vals)
            if work_bound or (len(byh) == len(logs) and len(vals) == 1):
                # work bound somewhere, or the SAME exception in every interpreter: never decides
                bad.add(idx)
                if hs[0] in byh:
                    dropped[byh[hs[0]]] = dropped.get(byh[hs[0]], 0) + 1
            # otherwise: an exception in some interpreters only (or different ones) is itself a process-to-process
            # difference and is compared like any other output
        for idx, kind, res in ref:
            if idx in bad or is_bad(res):
                continue
            d = core.digest(items[idx])[:16]
            distinct.add(d)
            kinds[kind] = kinds.get(kind, 0) + 1
            nt = False
            if kind == 'simp':
                nt = res['simp'][1] != items[idx]['e']
                clause_counts['idempotence_checked'] += 1
                clause_counts['order_variants_checked'] += len(res['variants_equal'])
                if not res['idem']:
                    viol.append(('idempotence', items[idx], w, hs[0], nz0, nz0, {'simp': res['simp'][0], 'again': res.get('idem_got'), '_prefix': items[:idx]}))
                elif not res.get('interned_equal', True):
                    viol.append(('sharing-sensitivity', items[idx], w, hs[0], nz0, nz0, {'simp': res['simp'][0], '_prefix': items[:idx]}))
                elif not all(res['variants_equal']):
                    viol.append(('order-insensitivity', items[idx], w, hs[0], nz0, nz0, {'simp': res['simp'][0], '_prefix': items[:idx]}))
            elif kind == 'emul':
                nt = len(res['dump_mem']) >= 2
                if not res.get('rerun_equal', True):
                    viol.append(('rerun-differs', items[idx], w, hs[0], nz0, nz0, {'dump_id': res['dump_id'][:5]}))
            elif kind == 'lift':
                nt = bool(res['lift'])
            elif kind == 'symline':
                nt = res.get('symline', 1) is not None
            elif kind == 'affs':
                nt = len(res['dump_mem']) >= 2
            else:
                nt = len(res['r']) >= 2
            if nt:
                nontrivial.add(d)
            if len(samples) < 4 and nt and kind not in [s['kind'] for s in samples]:
                samples.append({'kind': kind, 'item': items[idx], 'output_hashseed0': res})
        for h, (lg, nz) in logs.items():
            if h == hs[0]:
                continue
            for (idx, kind, res), (_, _, res0) in zip(lg, ref):
                if idx in bad:
                    continue
                items_compared += 1
                if res != res0:
                    keys = [k for k in res0 if res0[k] != res.get(k)] if isinstance(res, dict) else ['?']
                    viol.append(('seed-dependence:%s:%s' % (kind, keys[0] if keys else '?'), items[idx], w, h, nz0, nz, {'hashseed0': res0, 'other': res}))
    seen = set()
    for cls, item, w, h, nz0, nz1, detail in viol:
        if cls in seen or len(seen) >= 3:
            continue
        seen.add(cls)
        detail = dict(detail)
        if cls.startswith('seed-dependence'):
            votes = 2 if differs(tmpdir, item, hs[0], h, nz0, nz1)[0] else 0
            if votes < 2:
                batch.harness_errors.append('C13 difference (%s, hashseed %s) did not reproduce in fresh interpreter pairs under %d allocation patterns' % (cls, h, NOISE_TRIES))
                continue
            small = minimise_item(item, lambda c: differs(tmpdir, c, hs[0], h, nz0, nz1)[0])
            _, o0, o1 = differs(tmpdir, small, hs[0], h, nz0, nz1)
            rec = {'property': 'C13', 'class': cls, 'seed': seed, 'workload': w, 'items': [small], 'hashseeds': [hs[0], h],
                   'noise_seeds': [nz0, nz1], 'expected': o0, 'got': o1, 'reproduced_votes': votes,
                   'schedule': 'two fresh interpreters, same item', 'faults': ['hashseed=%s' % h, 'alloc-noise=%s' % nz1]}
        else:
            which = cls
            prefix = []
            ok, _ = clause_fails(tmpdir, item, which)
            if not ok and detail.get('_prefix'):
                # not a function of the item alone: the failure depends on what the interpreter simplified before
                # (process-wide state).  Reproduce with the workload prefix and shrink the prefix.
                prefix = [x for x in detail['_prefix'] if x['kind'] == 'simp']
                ok, _ = clause_fails(tmpdir, item, which, prefix)
                if not ok:
                    prefix = list(detail['_prefix'])
                    ok, _ = clause_fails(tmpdir, item, which, prefix)
                if ok:
                    prefix = core.ddmin(prefix, lambda cand: clause_fails(tmpdir, item, which, cand)[0], 40)
                    if len(prefix) == 1 and clause_fails(tmpdir, item, which, [])[0]:
                        prefix = []
            if not ok:
                batch.harness_errors.append('C13 clause failure (%s) did not reproduce' % cls)
                continue
            if prefix:
                small = item
            else:
                small = minimise_item(item, lambda c: clause_fails(tmpdir, dict(c, variants=gen13.variants(random.Random(1), c['e'], 4)) if which == 'order-insensitivity' and c['kind'] == 'simp' else c, which)[0])
                if which == 'order-insensitivity':
                    small = dict(small, variants=gen13.variants(random.Random(1), small['e'], 4))
            _, o = clause_fails(tmpdir, small, which, prefix)
            if prefix:
                cls = cls + ':history-dependent'
            rec = {'property': 'C13', 'class': cls, 'seed': seed, 'workload': w, 'items': list(prefix) + [small], 'hashseeds': [0], 'noise_seeds': [0],
                   'expected': 'clause holds', 'got': o, 'schedule': 'one fresh interpreter (generated-input clause, not simulation)', 'faults': []}
        path = core.write_replay('C13', rec)
        batch.violations.append({'replay': path, 'class': cls})
    total = len(jobs)
    cov = {
        'evaluations': items_compared + sum(kinds.values()),
        'interpreters_started': total,
        'workloads': nwl,
        'items_per_workload': t['items'],
        'hashseeds': [str(h) for h in hs],
        'distinct_items': len(distinct),
        'distinct_nontrivial': len(nontrivial),
        'rule': ('items = seeded expression trees (simp), instruction encodings (lift), short programs with several stores (emul), read sets (sets); each '
                 'item is executed in one fresh interpreter per hash seed (each with its own seeded allocation noise) and the outputs are compared with '
                 'those of the first hash seed. evaluations = item outputs produced and compared. distinct = distinct item recipe; non-trivial = simp: '
                 'the simplifier changed the tree; emul: >= 2 memory cells dumped; lift: >= 1 assignment; sets: >= 2 elements'),
        'items_by_kind': kinds,
        'cross_interpreter_comparisons': items_compared,
        'faults_fired': {'hashseed': len([j for j in jobs if j[2] != hs[0]]), 'alloc-noise': total},
        'generated_input_clauses (not simulation)': clause_counts,
        'dropped_items (budget or exception in some interpreter; never decide)': dropped,
        'samples': samples,
        'log_digest': core.digest(digests),
        'real_components': ['miasmx + ply from ' + core.REPO + ' in fresh CPython interpreters', 'CPython string hashing and allocator'],
        'stub_components': ['workload generator', 'allocation noise'],
    }
    assumptions = ['work inside the SUT is bounded by a deterministic call budget, never by wall clock',
                   'an id()-order dependent difference must reproduce in 2 of 3 fresh interpreter pairs to be reported',
                   'idempotence / operand-order clauses are generated-input checks riding on the same items']
    return batch.finish(cov, assumptions, total)

def replay(path, tmpdir):
    with open(path) as f:
        rec = json.load(f)
    item = rec['items'][0]
    if rec['class'].startswith('seed-dependence'):
        h0, h1 = rec['hashseeds']
        n0, n1 = rec['noise_seeds']
        if differs(tmpdir, item, h0, h1, n0, n1)[0]:
            print('VIOLATION property=C13 replay=%s' % path)
            print('  class=%s reproduced=True (differs under >= 2 of %d allocation patterns)' % (rec['class'], NOISE_TRIES))
            return 1
        print('replay: outputs agree')
        return 0
    which = rec['class'].replace(':history-dependent', '')
    ok, o = clause_fails(tmpdir, rec['items'][-1], which, rec['items'][:-1])
    if ok:
        print('VIOLATION property=C13 replay=%s' % path)
        print('  class=%s reproduced=True' % rec['class'])
        return 1
    print('replay: clause holds')
    return 0
