# Shared batch runner: seeded runs -> violations -> attribution to listed
# findings -> minimisation -> replay files -> protocol lines -> evidence.
import os, sys, json, time, random
from . import core

class Batch(object):
    def __init__(self, prop, tier, seed):
        self.prop, self.tier, self.seed = prop, tier, seed
        self.t0 = time.monotonic()
        self.violations = []      # new violations: dicts with 'replay'
        self.known = {}           # finding id -> count
        self.known_samples = {}
        self.harness_errors = []
        self.discarded = {}
        self.lines = []

    def discard(self, reason):
        self.discarded[reason] = self.discarded.get(reason, 0) + 1

    def finish(self, coverage, assumptions, total_runs):
        wall = time.monotonic() - self.t0
        kf = core.load_known_findings()
        listed = {f['id']: f for f in kf.get('findings', []) if f.get('property') == self.prop}
        for fid in sorted(self.known):
            f = listed.get(fid, {})
            print('KNOWN-FINDING: property=%s %s: %s (hit in %d runs)' % (self.prop, fid, f.get('what', ''), self.known[fid]))
        for v in self.violations:
            print('VIOLATION property=%s replay=%s' % (self.prop, v['replay']))
            print('  class=%s' % v.get('class'))
        coverage['known_findings_hit'] = dict(sorted(self.known.items()))
        coverage['discarded_runs'] = dict(sorted(self.discarded.items()))
        coverage['repo'] = core.repo_state()
        coverage['runs_per_hour'] = int(total_runs / wall * 3600) if wall > 0 else 0
        core.write_evidence(self.prop, self.tier, self.seed, coverage, wall, len(self.violations), assumptions)
        ndisc = sum(n for r, n in self.discarded.items() if 'timeout' in r)
        if self.harness_errors:
            print('HARNESS-ERROR property=%s %s' % (self.prop, self.harness_errors[0][:2000]))
            return 2
        if total_runs and ndisc > max(2, total_runs // 100):
            print('HARNESS-ERROR property=%s too many timed-out runs: %d of %d' % (self.prop, ndisc, total_runs))
            return 2
        if self.violations:
            return 1
        print('OK property=%s tier=%s seed=%d runs=%d wall=%.1fs' % (self.prop, self.tier, self.seed, total_runs, wall))
        return 0
