# C13 worker: runs in a FRESH interpreter whose PYTHONHASHSEED (and allocation
# pattern) is the variable under simulation.  Executes the seeded workload and
# prints one JSON line per item.  Usage:
#   hashseed_worker.py <repo> <tmpdir> <workload_seed> <n_items> <noise_seed> [item indices...]
import sys, os, json, random
repo, tmpdir, wseed, nitems, noise_seed = sys.argv[1], sys.argv[2], int(sys.argv[3]), int(sys.argv[4]), int(sys.argv[5])
only = None
items_file = None
if len(sys.argv) > 6:
    if sys.argv[6] == '--items':
        items_file = sys.argv[7]
    else:
        only = set(int(x) for x in sys.argv[6:])
os.environ['TMPDIR'] = tmpdir
here = os.path.dirname(os.path.dirname(os.path.abspath(__file__)))
saved = list(sys.path)
sys.path.insert(0, repo)
import logging
logging.disable(logging.CRITICAL)
# the import order of the miasmX modules is one more thing that may differ between two processes
_order = ['miasmx.arch.ia32_arch', 'miasmx.arch.ia32_sem', 'miasmx.tools.emul_helper', 'miasmx.expression.expression',
          'miasmx.expression.expression_helper', 'miasmx.expression.expression_eval_abstract', 'miasmx.tools.modint',
          'miasmx.core.parse_ad', 'miasmx.arch.ia32_att', 'miasmx.core.bin_stream']
random.Random(noise_seed ^ 0x5eed).shuffle(_order)
for _m in _order:
    __import__(_m)
import miasmx.arch.ia32_arch as A
import miasmx.arch.ia32_sem as S
import miasmx.tools.emul_helper as H
import miasmx.expression.expression as E
import miasmx.expression.expression_helper as X
import miasmx.tools.modint as MI
sys.path[:] = [repo, here] + saved
from sim import canon, gen13

BUDGET = 20000
class Budget(Exception):
    pass
_left = [0]
_orig = X._expr_simp
def _counted(e):
    _left[0] -= 1
    if _left[0] < 0:
        raise Budget()
    return _orig(e)
X._expr_simp = _counted

regs = {}
for k, v in vars(S).items():
    if isinstance(v, E.ExprId) and v.name not in regs:
        regs[v.name] = v

noise = random.Random(noise_seed)
_keep = []
class _J(object):
    """same allocator size class as expression nodes (instance + __dict__)"""
    def __init__(self):
        self.a = None
def alloc_noise():
    """Seeded allocation/free pattern: punches holes into the allocator pools
    that expression nodes come from, so that id() order of the objects built
    next is perturbed deterministically."""
    n = noise.randrange(0, 60)
    junk = [_J() for _ in range(n)]
    lists = [[None] * noise.randrange(1, 30) for _ in range(noise.randrange(0, 10))]
    noise.shuffle(junk)
    cut = noise.randrange(0, n + 1)
    _keep.append(junk[:cut])          # the rest is freed in shuffled order: LIFO free lists hand it back reversed
    del junk
    if len(_keep) > 40:
        del _keep[:noise.randrange(1, 30)]

def build(s):
    alloc_noise()
    return canon.deser_expr(s, regs)

def simp_str(e):
    r = X.expr_simp(e)
    return r, [str(r), canon.ser_expr(r)]

def run_item(item):
    k = item['kind']
    if k == 'simp':
        e = build(item['e'])
        r, out = simp_str(e)
        res = {'simp': out}
        # generated-input clauses (not simulation): idempotence, order insensitivity
        r2 = X.expr_simp(build(canon.ser_expr(r)))
        res['idem'] = canon.ser_expr(r2) == canon.ser_expr(r)
        if not res['idem']:
            res['idem_got'] = str(r2)
        # equal expressions must simplify identically whether equal sub-trees are one shared object or
        # distinct objects (the canonical form is a function of the structure)
        ri = X.expr_simp(canon.deser_expr_interned(item['e'], regs))
        res['interned_equal'] = (str(ri) == str(r) and ri == r) if item.get('lax') else canon.ser_expr(ri) == canon.ser_expr(r)
        var = []
        for v in item.get('variants', []):
            rv = X.expr_simp(build(v))
            if item.get('lax'):
                # operands that are equal for the library but not structurally: text and library equality decide
                var.append(str(rv) == str(r) and rv == r)
            else:
                var.append(canon.ser_expr(rv) == canon.ser_expr(r))
        res['variants_equal'] = var
        return res
    if k == 'lift':
        i = A.x86mnemo.dis(bytes.fromhex(item['hex']))
        if i is None:
            return {'lift': None}
        alloc_noise()
        affs = H.get_instr_expr(i, E.ExprInt(MI.uint32(0x1000)), [])
        out = []
        for a in affs:
            r = X.expr_simp(a)
            out.append([str(r), canon.ser_expr(r)])
        res = {'lift': out, 'intel': str(i), 'att': i.__str__('att_syntax')}
        # the instruction stepped on a fresh machine: the committed state (which assignment wins when a destination
        # is named twice, which cells exist) is part of what must not depend on the process
        try:
            m = H.x86_machine()
            alloc_noise()
            H.emul_lines(m, [i])
            res['state'] = [m.dump_id(), m.dump_mem()]
        except Budget:
            raise
        except RecursionError:
            res['state'] = 'EXC:RecursionError'
        except Exception as e:
            res['state'] = 'EXC:' + type(e).__name__
        return res
    if k == 'emul':
        m = H.x86_machine()
        rendered = []
        for line in item['lines']:
            alloc_noise()
            c = A.x86mnemo.asm(line)
            i = A.x86mnemo.dis(c[0])
            rendered.append([c[0].hex(), str(i), i.__str__('att_syntax')])
            H.emul_lines(m, [i])
        out = {'dump_id': m.dump_id(), 'dump_mem': m.dump_mem(), 'rendered': rendered}
        # the same program once more in the same process, on a second machine: identical dumps
        m2 = H.x86_machine()
        for line in item['lines']:
            alloc_noise()
            H.emul_lines(m2, [A.x86mnemo.dis(A.x86mnemo.asm(line)[0])])
        out['rerun_equal'] = (m2.dump_id() == out['dump_id'] and m2.dump_mem() == out['dump_mem'])
        return out
    if k == 'symline':
        # a line whose operand adds several symbols, taken through the assembler's own flow
        # (parse_mnemo -> normalize_args -> asm_candidates) and rendered / lifted
        prefix, name, args = A.x86_mn.parse_mnemo(item['line'])
        A.x86_mn.normalize_args(name, args)
        instr = A.x86_mn()
        cand = instr.asm_candidates(prefix, name, [a.copy() for a in args])
        if not cand:
            return {'symline': None}
        instr.prefix, instr.m, instr.arg, instr.offset, instr.l = prefix, cand[0][0], args, 0, 0
        out = {'intel': str(instr), 'att': instr.__str__('att_syntax')}
        try:
            sem = H.get_instr_expr(instr, E.ExprInt(MI.uint32(0x1000)), [])
            out['sem'] = [str(x) for x in sem]
        except ValueError:
            out['sem'] = 'not liftable'
        return out
    if k == 'affs':
        m = H.x86_machine()
        affs = [build(a) for a in item['affs']]
        alloc_noise()
        m.eval_instr(affs)
        out = {'dump_id': m.dump_id(), 'dump_mem': m.dump_mem()}
        base = regs['init_' + item['base']]
        rb = []
        for d in range(item['lo'], item['hi']):
            a = base if d == 0 else E.ExprOp('+', base, E.ExprInt(MI.uint32(d & 0xffffffff)))
            rb.append(str(X.expr_simp(m.eval_expr(E.ExprMem(a, 8), {}))))
        out['readback'] = rb
        return out
    if k == 'sets':
        e = build(item['e'])
        return {'r': sorted(str(x) for x in e.get_r()), 'r_mem': sorted(str(x) for x in e.get_r(True))}
    raise ValueError(k)

if items_file:
    with open(items_file) as f:
        items = json.load(f)
else:
    items = gen13.workload(wseed, nitems)
out = sys.stdout
import signal
class Alarm(Exception):
    pass
def _on_alarm(sig, frm):
    raise Alarm()
signal.signal(signal.SIGALRM, _on_alarm)
for idx, item in enumerate(items):
    if only is not None and idx not in only:
        continue
    _left[0] = BUDGET
    signal.alarm(20)        # safety net only: such an item is dropped for ALL interpreters
    try:
        res = run_item(item)
    except Budget:
        res = 'BUDGET'
    except Alarm:
        res = 'ALARM'
    except RecursionError:
        res = 'EXC:RecursionError'
    except Exception as e:
        res = 'EXC:' + type(e).__name__
    signal.alarm(0)
    out.write(json.dumps([idx, item['kind'], res]) + '\n')
out.flush()
