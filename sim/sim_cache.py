# C12, multi-process world: real interpreters started one after another over a
# simulated parser-table cache directory; crash / torn / stale / foreign /
# unwritable states; only the directory survives.  DESIGN 4.1.b.
import os, sys, json, random, shutil, subprocess, stat, hashlib
from . import core, gen

WORKER = os.path.join(os.path.dirname(os.path.abspath(__file__)), 'cache_worker.py')
MODS = ['ply_ia32_intel_20150429', 'ply_ia32_att_20150429']

INTEL = [
    'mov eax, DWORD PTR [ebx+4]', 'mov BYTE PTR [ebp-9], -2', 'mov eax, dword ptr gs:20', 'mov eax, DWORD PTR 8[ebp]',
    'mov eax, DWORD PTR -8[ebp]', 'mov eax, DWORD PTR [esp+16+eax*4]', 'lea ebx, [0+eax*4]', 'lea ecx, [edx+eax+12]',
    'movzx eax, word ptr [2*eax+0]', 'mov eax, DWORD PTR A[0+eax*4]', 'lea edi, toto[eax+1512]', 'lea eax, .LC0@GOTOFF[ebx]',
    'mov DWORD PTR sp@GOTOFF[ebx], eax', 'mov eax, OFFSET FLAT:.LC0', 'mov eax, .LC0-.LC1', 'mov eax, OFFSET FLAT:.LC0-.LC1',
    'mov eax, (Lvartmp91)-Lvartmp90', 'push dword ptr 20', 'push dword ptr gs:20', 'fadd st, st(0)', 'fadd st0, st1',
    'fld QWORD PTR [8*eax+ebp-216]', 'fstp TBYTE PTR [ebp-92]', 'movaps XMMWORD PTR [ebx+148], xmm1', 'movq mm0, mm1',
    'call [DWORD PTR [esp+16+eax*4]]', 'jmp [DWORD PTR .L40[0+eax*4]]', 'jz .LC0', 'cmp eax, DWORD PTR [4+ecx+edx]',
    'xor BYTE PTR AZCAER_+41359, -128', 'mov WORD PTR 0, ax', 'lea eax, -8+a[ebx]', 'fild DWORD PTR ds:0', 'mov eax, ebx',
    'sar eax', 'imul eax, eax, 0x000000C8', 'shr edx, 0x0000001F', 'test dl, BYTE PTR[ebp-92]', 'mov si, WORD PTR[ebp-3]',
    'fdivr QWORD PTR -112[ebp]', 'mov eax, DWORD PTR eax', 'push WORD PTR bx',
]
ATT = [
    'movl 4(%ebx), %eax', 'movb $254, (%ebp)', 'movl %gs:20, %eax', 'movl 16(%esp,%eax,4), %eax', 'leal (,%eax,4), %ebx',
    'leal 12(%edx,%eax), %ecx', 'movl $.LC0, %eax', 'movl $.LC0+4, %eax', 'movl .LC0(%ebx), %eax', 'leal .LC0@GOTOFF(%ebx), %eax',
    'jmp *%eax', 'call *16(%esp,%eax,4)', 'fadd %st(1), %st', 'fdiv %st, %st(2)', 'fmull 32(%esi)', 'pslldq $4, %xmm3',
    'movq %mm1, %mm0', 'nop %cs:(%eax,%eax)', 'sbbl $-1, %ebx', 'rorl %cl, %eax', 'pushl $0', 'movw 2(%ebx), %ax', 'jz .LC0',
    'movl (%eax,%edx), %eax', 'cmpb $-66, %al', 'in %dx, %al', 'fnstsw %ax', 'flds 732(%esp)', 'movzbl (%ebp,%ebx), %eax',
    'lock xaddl %edx, 8(%eax)', 'movl $5, %eax', 'ret $4', 'push %es', 'sarl %eax', 'testb $120, %al', 'notrack jmp *%eax',
    'fldenv (%eax)', 'shrl $31, %edx', 'movsbl %al, %eax', 'xchgl %ebx, %eax',
]
BAD = [['intel', 'mov eax, ebx ]'], ['intel', 'mov [eax'], ['intel', 'mov eax, [ebx+]'], ['att', 'movl (%eax'], ['att', 'movl $, %eax'],
       ['att', 'movl 4(%ebx, %eax']]
ORDERS = [['arch', 'parse_ad', 'emul'], ['parse_ad', 'arch', 'emul'], ['emul', 'arch', 'parse_ad'], ['att', 'arch', 'parse_ad'], ['arch'],
          ['parse_ad', 'att', 'arch']]

def lifetime(cachedir, spec, bytecode, pyopt=False):
    """One process lifetime.  Returns ('ok', result) | ('crashed', info) | ('error', text)."""
    sf = os.path.join(os.path.dirname(cachedir), 'spec-%s.json' % os.path.basename(cachedir))
    with open(sf, 'w') as f:
        json.dump(spec, f)
    env = dict(os.environ)
    env['PYTHONHASHSEED'] = '0'
    env['TMPDIR'] = cachedir
    if bytecode:
        env.pop('PYTHONDONTWRITEBYTECODE', None)
    else:
        env['PYTHONDONTWRITEBYTECODE'] = '1'
    try:
        # (pyopt: the interpreter runs in optimised mode, python -O - a deployment configuration like byte-code caching)
        r = subprocess.run([core.PY] + (['-O'] if pyopt else []) + [WORKER, core.REPO, cachedir, sf], env=env, stdout=subprocess.PIPE, stderr=subprocess.PIPE, timeout=300)
    except subprocess.TimeoutExpired:
        return 'timeout', None
    finally:
        try:
            os.unlink(sf)
        except OSError:
            pass
    lines = [l for l in r.stdout.decode(errors='replace').split('\n') if l.startswith('{')]
    if r.returncode == 77:
        return 'crashed', (json.loads(lines[-1]) if lines else None)
    if r.returncode != 0 or not lines:
        return 'error', 'rc=%d %s' % (r.returncode, r.stderr.decode(errors='replace')[-1500:])
    return 'ok', json.loads(lines[-1])

def api_view(res):
    """What decides: API-visible results only."""
    return {'imports': res['imports'], 'asm': res['asm'], 'asm_att': res['asm_att'], 'bad': res['bad'], 'no_api': res.get('no_api', False)}

# ------------------------------------------------------- directory states

def warm_dir(base):
    """A directory whose tables were written by the tree under test (cached per check)."""
    d = os.path.join(base, 'warm-master')
    if not os.path.isdir(d):
        os.makedirs(d)
        st, res = lifetime(d, base_spec(['arch', 'parse_ad', 'emul']), False)
        if st != 'ok' or any(not os.path.isfile(os.path.join(d, m + '.py')) for m in MODS):
            raise core.HarnessError('cannot produce warm tables: %s %r' % (st, res))
    return d

def move_rule_function(src):
    """Another revision of a grammar module that differs only in WHERE one rule function sits (yacc resolves
    reduce/reduce conflicts in favour of the rule defined first, so the order is part of the grammar)."""
    import re
    starts = [m.start() for m in re.finditer(r'^def p_(?!error)', src, re.M)]
    if len(starts) < 4:
        return None
    ends = starts[1:] + [None]
    # end of the last rule function: the next top-level statement after it
    nl = src.index('\n', starts[-1]) + 1
    m = re.search(r'^(?![ \t#\n]|def p_)', src[nl:], re.M)
    ends[-1] = nl + m.start() if m else len(src)
    blocks = [src[a:b] for a, b in zip(starts, ends)]
    k = next((i for i, b in enumerate(blocks) if b.startswith('def p_symbolregister')), 1)
    if k == 0:
        k = 1
    moved = blocks[:k] + blocks[k + 1:] + [blocks[k] if blocks[k].endswith('\n') else blocks[k] + '\n']
    return src[:starts[0]] + ''.join(moved) + src[ends[-1]:]

def drop_alternative(src):
    """Another revision of a grammar module that differs only in the TEXT of one rule (the last alternative of a
    rule with several is gone): same rule-function names, tokens and precedence."""
    import re
    m = re.search(r"(\n[ \t]*\|[ \t]*expression TIMES expression)'''", src) or \
        re.search(r"('''[a-z_]+ : [^'\n]*(?:\n[ \t]*\|[^'\n]*)*)(\n[ \t]*\|[^'\n]*)'''", src)
    if not m:
        return None
    if m.lastindex == 1:
        return src[:m.start(1)] + src[m.end(1):]
    return src[:m.start(2)] + src[m.end(2):]

def stale_grammar_dir(base, flavour='prec'):
    """Tables generated by ANOTHER REVISION of the two grammars (same rule
    functions; operator precedence changed, or - flavour 'ruleorder' - one rule
    function moved): well-formed, bindable, right table
    version, different signature - using them would change parses.  Built by
    running a textually modified copy of the grammar modules of the tree under
    test as scripts with TMPDIR pointing at the result directory."""
    d = os.path.join(base, {'prec': 'stale-grammar-master', 'ruleorder': 'stale-ruleorder-master', 'ruletext': 'stale-ruletext-master'}[flavour])
    if os.path.isdir(d):
        return d if all(os.path.isfile(os.path.join(d, m + '.py')) for m in MODS) else None
    os.makedirs(d)
    ok = True
    for rel in ('miasmx/core/parse_ad.py', 'miasmx/arch/ia32_att.py'):
        src = open(os.path.join(core.REPO, rel)).read()
        a = "('left','PLUS','MINUS'),\n    ('left','TIMES'),"
        b = "('left','TIMES'),\n    ('left','PLUS','MINUS'),"
        if a not in src:
            ok = False
            break
        mod = os.path.join(base, 'stale_src_' + os.path.basename(rel))
        changed = src.replace(a, b, 1) if flavour == 'prec' else move_rule_function(src) if flavour == 'ruleorder' else drop_alternative(src)
        if changed is None or changed == src:
            ok = False
            break
        with open(mod, 'w') as f:
            f.write(changed)
        env = dict(os.environ)
        env.update({'TMPDIR': d, 'PYTHONPATH': core.REPO, 'PYTHONDONTWRITEBYTECODE': '1', 'PYTHONHASHSEED': '0'})
        r = subprocess.run([core.PY, mod], env=env, stdout=subprocess.DEVNULL, stderr=subprocess.DEVNULL, timeout=300)
        os.unlink(mod)
        if r.returncode != 0:
            ok = False
            break
    if not ok or not all(os.path.isfile(os.path.join(d, m + '.py')) for m in MODS):
        for fn in os.listdir(d):
            os.unlink(os.path.join(d, fn))
        return None
    return d

def base_spec(order, fault=None):
    return {'import_order': order, 'intel': INTEL, 'att': ATT, 'bad': BAD, 'fault': fault}

def cut_points(data, rng):
    """Byte counts at which a table write may be cut: line ends, the section
    boundaries of the table file, 4/8 KiB multiples, and anywhere."""
    pts = [i + 1 for i, c in enumerate(data) if c == 10]
    sec = []
    for marker in (b'_lr_signature', b'_lr_action_items', b'_lr_action = ', b'_lr_goto_items', b'_lr_goto = ', b'_lr_productions', b'del _lr_goto_items'):
        k = data.find(marker)
        if k >= 0:
            sec += [k, k + len(marker)]
    r = rng.random()
    if r < 0.3 and sec:
        return rng.choice(sec)
    if r < 0.55 and pts:
        return rng.choice(pts)
    if r < 0.7:
        ks = [k for k in range(4096, len(data), 4096)]
        if ks:
            return rng.choice(ks)
    return rng.randrange(0, len(data) + 1)

def prepare_dir(d, state, warm, rng, log):
    """Put directory d into the seeded initial state; log what was done."""
    os.makedirs(d, exist_ok=True)
    kind = state['kind']
    if kind == 'empty':
        return
    targets = state.get('targets') or MODS
    for m in MODS:
        src = os.path.join(warm, m + '.py')
        dst = os.path.join(d, m + '.py')
        if m not in targets or kind == 'warm':
            shutil.copyfile(src, dst)
            continue
        data = open(src, 'rb').read()
        if kind == 'torn':
            k = cut_points(data, rng)
            open(dst, 'wb').write(data[:k])
            log.append('torn@%d:%s' % (k, m))
        elif kind == 'hole':
            k = cut_points(data, rng)
            open(dst, 'wb').write(b'\0' * k + data[k:])
            log.append('hole@%d:%s' % (k, m))
        elif kind == 'stale-signature':
            # a REAL table of the other grammar under this name: using it would change parses
            other = [x for x in MODS if x != m][0]
            shutil.copyfile(os.path.join(warm, other + '.py'), dst)
            log.append('stale-signature:%s' % m)
        elif kind == 'stale-grammar':
            flavour = 'ruleorder' if rng.random() < 0.4 else 'prec'
            # third flavour (keyed by the preparation seed itself, the other draws are unaffected): one rule's text changed
            if int(hashlib.sha256(('%s|%s|ruletext' % (state.get('targets'), rng.getstate()[1][:3])).encode()).hexdigest(), 16) % 3 == 0:
                flavour = 'ruletext'
            sg = stale_grammar_dir(os.path.dirname(warm), flavour)
            if sg is None:
                shutil.copyfile(src, dst)
                log.append('stale-grammar-unavailable')
            else:
                shutil.copyfile(os.path.join(sg, m + '.py'), dst)
                log.append({'prec': 'stale-grammar:%s', 'ruleorder': 'stale-ruleorder:%s', 'ruletext': 'stale-ruletext:%s'}[flavour] % m)
        elif kind == 'stale-sigbytes':
            k = data.find(b'_lr_signature = ')
            e = data.find(b'\n', k)
            open(dst, 'wb').write(data[:k] + b"_lr_signature = b'\\x00stale\\x00'" + data[e:])
            log.append('stale-sigbytes:%s' % m)
        elif kind == 'stale-tabversion':
            open(dst, 'wb').write(data.replace(b"_tabversion = '3.2'", b"_tabversion = '3.0'"))
            log.append('stale-tabversion:%s' % m)
        elif kind == 'foreign':
            f = state['foreign']
            if f == 'python':
                open(dst, 'wb').write(b"# somebody else's file\nx = 1\n")
            elif f == 'binary':
                open(dst, 'wb').write(bytes(rng.randrange(128, 256) for _ in range(200)))
            elif f == 'empty':
                open(dst, 'wb').write(b'')
            elif f == 'raises':
                open(dst, 'wb').write(b"raise RuntimeError('foreign')\n")
            else:
                os.makedirs(os.path.join(d, m))        # a directory of that name: namespace package
            log.append('foreign-%s:%s' % (f, m))
    if state.get('readonly'):
        os.chmod(d, 0o555)
        log.append('readonly-dir')

def gen_run(rng):
    kind = rng.choice(['empty', 'empty', 'warm', 'torn', 'torn', 'torn', 'hole', 'stale-signature', 'stale-sigbytes', 'stale-tabversion',
                       'stale-grammar', 'stale-grammar', 'foreign', 'foreign'])
    state = {'kind': kind}
    if kind not in ('empty', 'warm'):
        state['targets'] = rng.choice([MODS, [MODS[0]], [MODS[1]]])
    if kind == 'foreign':
        state['foreign'] = rng.choice(['python', 'binary', 'empty', 'raises', 'dir'])
    if rng.random() < 0.12:
        state['readonly'] = True
    nlife = rng.choice([1, 2, 2, 3, 4])
    lives = []
    for k in range(nlife):
        lf = {'order': rng.choice(ORDERS), 'bytecode': rng.random() < 0.35}
        if k < nlife - 1 and rng.random() < 0.5:          # faults stop before the last lifetime
            fk = rng.choice(['crash', 'crash', 'enospc', 'eacces'])
            lf['fault'] = {'kind': fk, 'module': rng.choice([None, 'intel', 'att'])}
            if fk != 'eacces':
                lf['fault']['k'] = rng.choice([0, 1, 100, 512, 4096, 6000, 8192, 12000]) if rng.random() < 0.6 else rng.randrange(0, 13200)
        lives.append(lf)
    return {'state': state, 'lives': lives, 'prep_seed': rng.getrandbits(48)}

_REF = {}
def reference(base, order):
    """Reference lifetimes: private empty directory and private warm
    directory; the two must agree (empty vs pre-populated clause)."""
    key = ','.join(order)
    if key not in _REF:
        warm = warm_dir(base)
        d1 = os.path.join(base, 'ref-empty-' + hashlib.md5(key.encode()).hexdigest()[:8])
        shutil.rmtree(d1, ignore_errors=True)
        os.makedirs(d1)
        s1, r1 = lifetime(d1, base_spec(order), False)
        d2 = os.path.join(base, 'ref-warm-' + hashlib.md5(key.encode()).hexdigest()[:8])
        shutil.rmtree(d2, ignore_errors=True)
        shutil.copytree(warm, d2)
        s2, r2 = lifetime(d2, base_spec(order), False)
        shutil.rmtree(d1, ignore_errors=True)
        shutil.rmtree(d2, ignore_errors=True)
        _REF[key] = (s1, r1, s2, r2)
    return _REF[key]

def first_diff(a, b):
    for k in ('imports', 'no_api', 'bad', 'asm', 'asm_att'):
        if a[k] != b[k]:
            if isinstance(a[k], list):
                for n, (x, y) in enumerate(zip(a[k], b[k])):
                    if x != y:
                        return k, n, x, y
            return k, None, a[k], b[k]
    return None

def execute(base, run, tag):
    """One simulated run.  Returns dict(status, violation?, stats)."""
    warm = warm_dir(base)
    d = os.path.join(base, 'run-' + tag)
    shutil.rmtree(d, ignore_errors=True)
    log = []
    rng = random.Random(run['prep_seed'])
    prepare_dir(d, run['state'], warm, rng, log)
    stats = {'fired': list(log), 'lifetimes': 0, 'crashes': 0}
    viol = None
    try:
        for n, lf in enumerate(run['lives']):
            spec = base_spec(lf['order'], lf.get('fault'))
            # one lifetime in seven runs under python -O (decided by a hash, not by the PRNG, so that older replay files
            # and the other draws are unaffected)
            pyopt = int(hashlib.sha256(('%s|%d|pyopt' % (run['prep_seed'], n)).encode()).hexdigest(), 16) % 7 == 0
            # the simulator owns the clock the import system reads: byte-code files are validated by the source's mtime
            # (whole seconds) and size, so whether a table rewritten by the previous lifetime "looks unchanged" would
            # otherwise depend on how fast the machine is; every lifetime starts with all table files stamped at a
            # simulated time that moves on by 100 s per lifetime
            for fn in sorted(os.listdir(d)):
                fp = os.path.join(d, fn)
                if fn.startswith('ply_ia32_') and os.path.isfile(fp):
                    try:
                        os.utime(fp, (1600000000 + 100 * n, 1600000000 + 100 * n))
                    except OSError:
                        pass
            st, res = lifetime(d, spec, lf['bytecode'], pyopt)
            stats['lifetimes'] += 1
            if st == 'timeout':
                return {'status': 'discard', 'reason': 'timeout', 'stats': stats}
            if st == 'crashed':
                stats['crashes'] += 1
                stats['fired'].append('crash@%s' % (res or {}).get('crashed_at'))
                continue                       # nothing is asserted about a lifetime the simulator killed
            s1, r1, s2, r2 = reference(base, lf['order'])
            if s1 != 'ok' or s2 != 'ok':
                # the reference lifetime itself fails on this tree: that IS the empty-vs-prepopulated clause
                if s1 == 'ok' and s2 == 'ok':
                    pass
                viol = {'class': 'reference-lifetime-fails', 'lifetime': n, 'detail': {'empty': [s1, str(r1)[:300]], 'warm': [s2, str(r2)[:300]]}}
                break
            if st != 'ok':
                viol = {'class': 'lifetime-dies', 'lifetime': n, 'detail': {'error': str(res)[:600]}}
                break
            stats['fired'] += res.get('fired', [])
            if lf['bytecode']:
                stats['fired'].append('bytecode-on')
            if pyopt:
                stats['fired'].append('python-O')
            a1, a2 = api_view(r1), api_view(r2)
            # the order in which a process imports the public modules is part of its start-up schedule, not an input:
            # the reference lifetime of this order must answer like the reference lifetime of the first order
            s0, r0, _, _ = reference(base, ORDERS[0])
            if s0 == 'ok' and lf['order'] != ORDERS[0]:
                a0 = api_view(r0)
                dd = first_diff(dict(a0, imports=None), dict(a1, imports=None))
                if dd:
                    line = None
                    if dd[1] is not None:
                        line = {'asm': INTEL, 'asm_att': ATT, 'bad': [b[1] for b in BAD]}.get(dd[0], [None] * 99)[dd[1]]
                    viol = {'class': 'import-order:' + dd[0], 'lifetime': n,
                            'detail': {'field': dd[0], 'index': dd[1], 'input': line, 'order': lf['order'], 'first_order': ORDERS[0],
                                       'this_order': dd[3], 'first_order_result': dd[2]}}
                    break
                stats['fired'].append('import-order-compared')
            dd = first_diff(a1, a2)
            if dd:
                viol = {'class': 'empty-vs-warm:' + dd[0], 'lifetime': n,
                        'detail': {'field': dd[0], 'index': dd[1], 'empty_dir': dd[2], 'warm_dir': dd[3], 'diag_empty': r1.get('diag'), 'diag_warm': r2.get('diag')}}
                break
            got = api_view(res)
            dd = first_diff(a2, got)
            if dd:
                line = None
                if dd[1] is not None:
                    line = {'asm': INTEL, 'asm_att': ATT, 'bad': [b[1] for b in BAD], 'imports': lf['order']}.get(dd[0], [None] * 99)[dd[1]]
                viol = {'class': 'cache-state:' + dd[0], 'lifetime': n,
                        'detail': {'field': dd[0], 'index': dd[1], 'input': line, 'reference': dd[2], 'got': dd[3], 'diag': res.get('diag'), 'left': res.get('left')}}
                break
    finally:
        try:
            os.chmod(d, 0o755)
        except OSError:
            pass
        shutil.rmtree(d, ignore_errors=True)
    return {'status': 'ok', 'violation': viol, 'stats': stats}
