# Driver of the in-process world of C12 (DESIGN 4.1.a).
import os, sys, json, time, random
from . import core, sim_calls as SC

STREAM = 'calls'
KNOWN_SHIMS = None

def known_shims():
    global KNOWN_SHIMS
    if KNOWN_SHIMS is None:
        kf = core.load_known_findings()
        KNOWN_SHIMS = [(f['id'], f['shim']) for f in kf.get('findings', [])
                       if f.get('property') == 'C12' and f.get('shim') and f.get('world', 'calls') == 'calls']
    return KNOWN_SHIMS

def history_hash(ops):
    return core.digest([dict((k, v) for k, v in op.items()) for op in ops])[:16]

def pairs_of(ops):
    """Interference pairs: (kind of op by client A, kind of next op by client B != A)."""
    out = set()
    for a, b in zip(ops, ops[1:]):
        if a.get('c') != b.get('c'):
            out.add(a['op'] + '>' + b['op'])
    return sorted(out)

def one_run(i, seed, pristine):
    rs = core.run_seed('C12', STREAM, i, seed)
    rng = random.Random(rs)
    cfg, ops = SC.gen_history(rng)
    res = SC.execute(ops, pristine)
    out = {'run': i, 'seed': rs, 'n': len(ops), 'cfg': cfg, 'status': res['status'], 'hh': history_hash(ops),
           'threads': len(set(SC.thread_of(op, k) for k, op in enumerate(ops))), 'pairs': pairs_of(ops)}
    if res['status'] != 'ok':
        out['reason'] = res.get('reason')
        out['harness'] = bool(res.get('harness'))
        return out
    out['note'] = res.get('note')
    out['stats'] = res['inter']['stats']
    out['probes'] = res['inter']['probes']
    out['digest'] = core.digest([r['r'] for r in res['inter']['recs']])[:16]
    if i < 3:
        out['sample'] = ops
    if res['violations']:
        v = res['violations'][0]
        out['class'] = v['class']
        # attribution to listed findings: re-run under their corrective shims
        shim_list = known_shims()
        attributed = None
        incomplete = False
        if shim_list:
            for fid, sh in shim_list:
                r2 = SC.execute(ops, pristine, cache=True, shim_names=[sh])
                if r2['status'] != 'ok':
                    incomplete = True       # (time-out of the re-run under load): never decide on it
                    break
                if not r2['violations']:
                    attributed = fid
                    break
            if attributed is None and len(shim_list) > 1:
                r2 = SC.execute(ops, pristine, cache=True, shim_names=[sh for _, sh in shim_list])
                if r2['status'] == 'ok' and not r2['violations']:
                    attributed = '+'.join(fid for fid, _ in shim_list)
            if attributed is None and r2['status'] == 'ok' and r2['violations']:
                out['class_under_shims'] = r2['violations'][0]['class']
        if incomplete:
            out['status'] = 'discard'
            out['reason'] = 'attribution-rerun-' + str(r2.get('reason'))[:40]
            out['harness'] = bool(r2.get('harness'))
            out.pop('class', None)
            return out
        if attributed:
            out['known'] = attributed
            if len(ops) <= 12:
                out['known_sample'] = ops
        else:
            out['ops'] = ops
            out['violation'] = v
    return out

def replay_record(rec_ops, pristine, shim_names):
    res = SC.execute(rec_ops, pristine, cache=False, shim_names=shim_names)
    return res

def run(batch, n_runs, pristine, wall_limit=None, start=0):
    """Runs [start, start+n_runs); fills batch; returns coverage fragment."""
    seed = batch.seed
    stop = core.EarlyStop(lambda r: 'class' in r and 'known' not in r)
    recs = core.parallel_runs(lambda i: one_run(i, seed, pristine), list(range(start, start + n_runs)), wall_limit=wall_limit, progress=stop)
    hashes, nontrivial = set(), set()
    pairs = set()
    stats = {}
    probes = {}
    steps = 0
    samples = []
    skipped = 0
    classes = {}
    new = []
    digests = []
    for i in sorted(recs):
        r = recs[i]
        if r.get('_skipped'):
            skipped += 1
            continue
        if '_harness_error' in r:
            batch.harness_errors.append(r['_harness_error'])
            continue
        if r['status'] != 'ok':
            if r.get('harness'):
                batch.harness_errors.append(str(r.get('reason')))
            else:
                batch.discard(str(r.get('reason'))[:60])
            continue
        steps += r['n']
        hashes.add(r['hh'])
        digests.append([i, r['digest']])
        if r['threads'] >= 2:
            nontrivial.add(r['hh'])
        pairs.update(r['pairs'])
        for k, v in r['stats'].items():
            stats[k] = stats.get(k, 0) + v
        for p in r['probes']:
            probes[p] = probes.get(p, 0) + 1
        if r.get('note'):
            batch.discard('partial:' + r['note'])
        if 'sample' in r:
            samples.append({'run': i, 'seed': r['seed'], 'config': r['cfg'], 'ops': r['sample']})
        if 'known' in r:
            batch.known[r['known']] = batch.known.get(r['known'], 0) + 1
            if 'known_sample' in r and r['known'] not in batch.known_samples:
                batch.known_samples[r['known']] = {'run': i, 'class': r['class'], 'ops': r['known_sample']}
        elif 'class' in r:
            classes[r['class']] = classes.get(r['class'], 0) + 1
            new.append(r)
    # minimise and record up to 3 new violations (distinct classes first)
    seen = set()
    shim_names = [sh for _, sh in known_shims()]
    for r in new:
        cls = r.get('class_under_shims') or r['class']
        if cls in seen or len(seen) >= 3:
            continue
        seen.add(cls)
        ops = SC.minimise(r['ops'], pristine, cls, shim_names=shim_names)
        res = SC.execute(ops, pristine, cache=False, shim_names=shim_names)
        ok = res['status'] == 'ok' and any(v['class'] == cls for v in res['violations'])
        if not ok:
            # the minimised history lost the violation (ddmin ran out of budget on a flaky predicate): use the original one
            ops = r['ops']
            res = SC.execute(ops, pristine, cache=False, shim_names=shim_names)
            ok = res['status'] == 'ok' and any(v['class'] == cls for v in res['violations'])
        shim_used = shim_names
        if not ok:
            batch.harness_errors.append('violation of run %d (%s) did not reproduce in a fresh child' % (r['run'], cls))
            continue
        v = [x for x in res['violations'] if x['class'] == cls][0]
        rec = {'property': 'C12', 'world': 'calls', 'seed': batch.seed, 'run': r['run'], 'run_seed': r['seed'],
               'config': r['cfg'], 'class': cls, 'shims': shim_used, 'ops': ops,
               'schedule': [op.get('c') for op in ops],
               'faults': {'alias': [k for k, op in enumerate(ops) if op.get('shared') or 'iref' in op],
                          'shared_bind': [k for k, op in enumerate(ops) if op.get('shared_bind') is not None]},
               'expected': v.get('iso', v.get('before')), 'got': v.get('inter', v.get('after')), 'violation_index': v.get('idx'),
               'original_ops': len(r['ops'])}
        path = core.write_replay('C12', rec)
        batch.violations.append({'replay': path, 'class': cls})
    cov = {
        'evaluations': len(recs) - skipped,
        'skipped_by_wall_limit': skipped,
        'distinct_histories': len(hashes),
        'distinct_nontrivial': len(nontrivial),
        'steps_total': steps,
        'interference_pairs_covered': len(pairs),
        'faults_fired': stats,
        'probe_lines_hit_runs': dict(sorted(probes.items())),
        'probe_lines_never_hit': sorted(set(SC.probe_sites()) - set(probes)),
        'violation_classes_new': classes,
        'samples': samples,
        'known_finding_samples': batch.known_samples,
        'log_digest': core.digest(digests),
    }
    return cov

def replay(path, pristine):
    with open(path) as f:
        rec = json.load(f)
    res = SC.execute(rec['ops'], pristine, cache=False, shim_names=rec.get('shims', []))
    if res['status'] != 'ok':
        print('HARNESS-ERROR replay did not complete: %s' % res.get('reason'))
        return 2
    hit = [v for v in res['violations'] if v['class'] == rec['class']]
    if hit:
        v = hit[0]
        same = (v.get('iso', v.get('before')) == rec['expected'] and v.get('inter', v.get('after')) == rec['got'])
        print('VIOLATION property=C12 replay=%s' % path)
        print('  class=%s reproduced=%s identical_expected_got=%s' % (rec['class'], True, same))
        return 1
    print('replay: violation class %s did not occur (tree differs from the one that produced the file?)' % rec['class'])
    return 0
