# C07: the symbolic machine's state equals sequential execution of the lifted
# semantics, including overlapping memory.  Refinement check of the real
# eval_abs / emul_helper against refmodel.RefMachine.  See DESIGN.md 4.3.
import hashlib, json, random, re
from . import core, canon, refmodel
from .sim_calls import sut, install_budget, reset_budget, Budget

M32 = 0xffffffff
GPR = ['eax', 'ebx', 'ecx', 'edx', 'esi', 'edi', 'esp', 'ebp']
FLAGS1 = ['zf', 'nf', 'pf', 'of', 'cf', 'df', 'af']
STRING_NAMES = ('movs', 'stos', 'lods', 'cmps', 'scas')

CONST_BASE = 0x200000        # far from every valuation of the symbolic bases, also when those wrap

# ------------------------------------------------------------ op -> real IR

def addr_ser(base, off):
    """Address expression (serialised): data base symbol / constant / stack."""
    s = sut()
    off &= M32
    if base == 'const':
        return ['I', 'uint32', (CONST_BASE + off) & M32]
    sym = canon.ser_expr(s.regs['init_ebx' if base == 'sym' else 'init_esp'])
    if off == 0:
        return sym
    return ['O', '+', [sym, ['I', 'uint32', off]]]

def src_ser(src, w):
    s = sut()
    k = src[0]
    if k == 'sym':
        return ['D', src[1], w, True, False]
    if k == 'const':
        return ['I', 'uint%d' % w, src[1] & ((1 << w) - 1)]
    if k == 'reg':
        r = canon.ser_expr(s.regs[src[1]])
        if w == 32:
            return r
        return ['S', r, src[2], src[2] + w]
    if k == 'load':
        return ['M', addr_ser(src[1], src[2]), w, None, False]
    raise ValueError(src)

def op_affs(op):
    """Serialised assignment list of a direct store / load op."""
    s = sut()
    if op['op'] == 'store':
        return [['=', ['M', addr_ser(op['base'], op['off']), op['w'], None, False], src_ser(op['src'], op['w'])]]
    if op['op'] == 'load':
        w = op['w']
        reg = canon.ser_expr(s.regs[op['dst']])
        mem = ['M', addr_ser(op['base'], op['off']), w, None, False]
        if w == 32:
            return [['=', reg, mem]]
        lo = op.get('lo', 0)
        # sub-register destination: ExprAff(ExprSlice) builds the compose itself
        return [['=slice', reg, lo, lo + w, mem]]
    raise ValueError(op)

def multi_affs(op):
    """Several assignments committed by ONE eval_instr (parallel assignment)."""
    out = []
    for sub in op['subs']:
        out += op_affs(sub)
    return out

def build_aff(a):
    s = sut()
    E = s.E
    if a[0] == '=slice':
        reg = canon.deser_expr(a[1], s.regs)
        return E.ExprAff(E.ExprSlice(reg, a[2], a[3]), canon.deser_expr(a[4], s.regs))
    return canon.deser_expr(a, s.regs)

# ------------------------------------------------------------ valuations

BOUND32 = [0, 1, 2, 0x7f, 0x80, 0xff, 0x100, 0x7fff, 0x8000, 0xffff, 0x10000, 0x7fffffff, 0x80000000, 0xfffffffe, 0xffffffff]

def gen_valuation(rng, nsyms):
    val = {}
    for r in GPR:
        val['init_' + r] = rng.choice(BOUND32) if rng.random() < 0.5 else rng.getrandbits(32)
    # data base and stack: far apart, far from the constant region (non-aliasing
    # assumption the machine itself makes for distinct symbolic bases)
    val['init_ebx'] = rng.choice([0x10000000 + 4 * rng.randrange(0x1000), 0xfffffff0, 0xfffffffc, 0x7ffffff8, 0x20000001])
    val['init_esp'] = rng.choice([0x7fff0000 + 4 * rng.randrange(0x100), 0xbffff000, 0x40000002])
    for f in ['zf', 'nf', 'pf', 'of', 'cf', 'tf', 'i_f', 'df', 'af', 'nt', 'rf', 'vm', 'ac', 'vif', 'vip', 'i_d']:
        val['init_' + f] = rng.getrandbits(1)
    val['init_iopl'] = rng.getrandbits(2)
    for n in ('init_cr0', 'init_tsc1', 'init_tsc2'):
        val[n] = rng.getrandbits(32)
    for i in range(nsyms):
        val['s%d' % i] = rng.choice(BOUND32) if rng.random() < 0.4 else rng.getrandbits(32)
    val['_image'] = rng.getrandbits(48)
    # x87 top of stack: absent from x86_machine(), so it stays a free 64-bit identifier in the state
    val['float_st0'] = int(hashlib.sha256(('%d|st0' % val['_image']).encode()).hexdigest()[:16], 16)
    for i in range(1, 8):
        val['float_st%d' % i] = int(hashlib.sha256(('%d|st%d' % (val['_image'], i)).encode()).hexdigest()[:16], 16)
    val['float_stack_ptr'] = val['_image'] & 7
    return val

def ref_initial(val):
    regs = {}
    for r in GPR:
        regs[r] = val['init_' + r]
    for f in ['zf', 'nf', 'pf', 'of', 'cf', 'tf', 'i_f', 'df', 'af', 'nt', 'rf', 'vm', 'ac', 'vif', 'vip', 'i_d']:
        regs[f] = val['init_' + f]
    regs['iopl_f'] = val['init_iopl']
    regs['tsc1'] = val['init_tsc1']
    regs['tsc2'] = val['init_tsc2']
    regs['cr0'] = val['init_cr0']
    regs['cs'] = 9
    regs['dr7'] = 0
    for i in range(8):
        regs['float_st%d' % i] = val.get('float_st%d' % i, 0)
    regs['float_stack_ptr'] = val.get('float_stack_ptr', 0)
    return regs

# ------------------------------------------------------------ real execution

class Discard(Exception):
    pass

SUM_SCALES = (1, 4)

def sum_term_scale(t):
    """1 / 4 if t is init_ecx / init_ecx*4, else None."""
    c = t.__class__.__name__
    if c == 'ExprId' and t.name == 'init_ecx':
        return 1
    if c == 'ExprOp' and t.op == '*' and len(t.args) == 2:
        ids = [a for a in t.args if a.__class__.__name__ == 'ExprId']
        ints = [a for a in t.args if a.__class__.__name__ == 'ExprInt']
        if len(ids) == 1 and len(ints) == 1 and ids[0].name == 'init_ecx' and int(ints[0].arg) == 4:
            return 4
    return None

def sum_key_scale(k):
    """scale if k is init_ebx + init_ecx*scale (+ const), the two-term symbolic base of 'sumbase' histories."""
    if k.__class__.__name__ != 'ExprOp' or k.op != '+' or not (2 <= len(k.args) <= 3):
        return None
    ebx = [a for a in k.args if a.__class__.__name__ == 'ExprId' and a.name == 'init_ebx']
    ints = [a for a in k.args if a.__class__.__name__ == 'ExprInt']
    rest = [a for a in k.args if a not in ebx and a not in ints]
    if len(ebx) != 1 or len(rest) != 1 or len(ints) != len(k.args) - 2:
        return None
    return sum_term_scale(rest[0])

_SUM_SCALE = [None]       # scale of the sum base of the history being executed (None: no sum base allowed)

def key_ok(k):
    """Guard (iii): a memory key must be const, base or base+const (base: init_ebx, init_esp, or - in a 'sumbase'
    history - the one two-term base init_ebx + init_ecx*scale)."""
    c = k.__class__.__name__
    if c == 'ExprInt':
        return True
    if c == 'ExprId':
        return k.name in ('init_ebx', 'init_esp')
    if c == 'ExprOp' and k.op == '+' and len(k.args) == 2:
        names = sorted(a.__class__.__name__ for a in k.args)
        if names == ['ExprId', 'ExprInt']:
            i = [a for a in k.args if a.__class__.__name__ == 'ExprId'][0]
            return i.name in ('init_ebx', 'init_esp')
    if _SUM_SCALE[0] is not None and sum_key_scale(k) == _SUM_SCALE[0]:
        return True
    return False

def sum_base_ser(scale):
    s = sut()
    ebx, ecx = canon.ser_expr(s.regs['init_ebx']), canon.ser_expr(s.regs['init_ecx'])
    return ['O', '+', [ebx, ecx if scale == 1 else ['O', '*', [ecx, ['I', 'uint32', scale]]]]]

def region_base_ser(region):
    s = sut()
    if region.startswith('_sum'):
        return sum_base_ser(int(region[4:]))
    return canon.ser_expr(s.regs[region])

def mems_in(e, out):
    c = e.__class__.__name__
    if c == 'ExprMem':
        out.append(e)
        mems_in(e.arg, out)
    elif c == 'ExprOp':
        for a in e.args:
            mems_in(a, out)
    elif c == 'ExprSlice':
        mems_in(e.arg, out)
    elif c == 'ExprCompose':
        for a in e.args:
            mems_in(a[0], out)
    elif c == 'ExprCond':
        mems_in(e.cond, out); mems_in(e.src1, out); mems_in(e.src2, out)
    elif c == 'ExprAff':
        mems_in(e.dst, out); mems_in(e.src, out)
    return out

def addresses_ok(m, affs):
    """Guard (iii) for LOADS as well: every memory operand of the instruction must, in the current state,
    address a constant or base+constant cell; otherwise the machine cannot decide aliasing (and the
    property does not ask it to)."""
    s = sut()
    for a in affs:
        for mem in mems_in(a, []):
            try:
                adr = s.X.expr_simp(m.eval_expr(mem.arg, {}))
            except Exception:
                return False
            if not key_ok(adr):
                return False
    return True

def assemble(line):
    s = sut()
    c = s.A.x86mnemo.asm(line)
    if not c:
        raise Discard('asm-empty')
    return c[0]

_ASM_CACHE = {}

def instr_bytes(line):
    b = _ASM_CACHE.get(line)
    if b is None:
        b = _ASM_CACHE[line] = assemble(line).hex()
    return b

def is_rep_string(i):
    return (0xF2 in i.prefix or 0xF3 in i.prefix) and i.m.name[:-1] in STRING_NAMES and 'MMX' not in i.m.name

def precondition_decidable(m, hx, i):
    """repe/repne: the architectural termination test needs a concrete zero
    flag after every step.  Established on a CLONE of the machine by single
    steps of the un-prefixed instruction (real code); a history where the flag
    is not concrete at some step is outside the property and discarded."""
    s = sut()
    clone = s.V.eval_abs({})
    clone.pool = m.pool.copy()
    b = bytes.fromhex(hx)
    k = 0
    while k < len(b) and b[k] not in (0xF2, 0xF3):
        k += 1
    single = (b[:k] + b[k + 1:]).hex()
    cnt = int(m.pool[s.regs['ecx']].arg)
    for _ in range(min(cnt, 0x40)):
        j = s.A.x86mnemo.dis(bytes.fromhex(single))
        if j is None:
            raise Discard('precondition:undecodable')
        try:
            reset_budget()
            s.H.emul_lines(clone, [j])
            z = clone.eval_expr(clone.pool[s.regs['zf']], {})
        except Exception as e:
            raise Discard('precondition:raises:' + type(e).__name__)
        if z.__class__.__name__ != 'ExprInt':
            raise Discard('undecidable-zf')
        if 0xF3 in i.prefix and int(z.arg) == 0:
            break
        if 0xF2 in i.prefix and int(z.arg) == 1:
            break

def _backing_read(machine, a):
    # client-supplied memory back end (func_read seam): unknown constant-address memory is initial memory
    a.is_term = True
    return a

def _backing_write(machine, dst, src, pool_out):
    # func_write seam: a store to a constant address goes where the machine itself would put it
    pool_out[dst] = src

def run_real(ops, backing=False, held=None):
    """Execute the history on the real machine.  Returns (machine, trace) where
    trace[k] describes what the reference must execute for op k."""
    s = sut()
    if backing == 'read-only':
        m = s.H.x86_machine(_backing_read, None)        # a read callback only: stores to constant addresses stay in the pool
    elif backing:
        m = s.H.x86_machine(_backing_read, _backing_write)
    else:
        m = s.H.x86_machine()
    trace = []
    reuse_cache = {}
    saved = None
    if held is not None:
        first = next((o for o in ops if 'base' in o or 'line' in o), {})
        kind = 'const' if (first.get('base') == 'const' or str(first.get('line', '')).startswith('mov ebx, %d' % CONST_BASE)) else 'sym'
        held.update(early_probes(m, kind))
    for op in ops:
        reset_budget()
        if op['op'] in ('store', 'load', 'multi'):
            affs = multi_affs(op) if op['op'] == 'multi' else op_affs(op)
            real = [build_aff(a) for a in affs]
            ser = [canon.ser_expr(a) for a in real]
            try:
                m.eval_instr(real)
            except Budget:
                raise Discard('budget')
            except Exception as e:
                raise Discard('raises:eval_instr:' + type(e).__name__)
            for k in list(m.pool):
                m.pool[k] = s.X.expr_simp(m.pool[k])
            trace.append({'affs': ser})
        elif op['op'] == 'block':
            # several instructions handed to ONE emul_lines call
            instrs, sers = [], []
            for line in op['lines']:
                hx = line[4:] if line.startswith('hex:') else instr_bytes(line)
                i = s.A.x86mnemo.dis(bytes.fromhex(hx))
                j = s.A.x86mnemo.dis(bytes.fromhex(hx))
                if i is None or is_rep_string(i):
                    raise Discard('undecodable')
                try:
                    affs = s.H.get_instr_expr(j, s.E.ExprInt(s.MI.uint32(j.l)), [])
                except Exception as e:
                    raise Discard('raises:lift:' + type(e).__name__)
                ser = [canon.ser_expr(a) for a in affs]
                for a in ser:
                    if refmodel.well_typed(a):
                        raise Discard('ill-typed-lift:%s' % i.m.name)
                instrs.append(i)
                sers.append({'affs': ser, 'rep': False, 'name': i.m.name, 'prefix': list(i.prefix)})
            try:
                s.H.emul_lines(m, instrs)
            except Budget:
                raise Discard('budget')
            except Exception as e:
                raise Discard('raises:emul-block:%s' % type(e).__name__)
            trace += sers
        elif op['op'] == 'insn':
            hx = op.get('hex') or instr_bytes(op['line'])
            if op.get('reuse') and hx in reuse_cache:
                i = reuse_cache[hx]           # the SAME instruction object as an earlier step of this history
            else:
                i = s.A.x86mnemo.dis(bytes.fromhex(hx))
                reuse_cache[hx] = i
            if i is None:
                raise Discard('undecodable')
            j = s.A.x86mnemo.dis(bytes.fromhex(hx))
            try:
                affs = s.H.get_instr_expr(j, s.E.ExprInt(s.MI.uint32(j.l)), [])
            except Exception as e:
                raise Discard('raises:lift:' + type(e).__name__)
            ser = [canon.ser_expr(a) for a in affs]
            for a in ser:
                bad = refmodel.well_typed(a)
                if bad:
                    # guard (vi): ill-typed lifted semantics (C11's business) - nothing to compare against
                    raise Discard('ill-typed-lift:%s' % i.m.name)
            rep = is_rep_string(i)
            if not rep and not addresses_ok(m, affs):
                raise Discard('foreign-address')
            t = {'affs': ser, 'rep': rep, 'name': i.m.name, 'prefix': list(i.prefix)}
            if rep:
                cnt = m.pool[s.regs['ecx']]
                t['concrete_count'] = cnt.__class__.__name__ == 'ExprInt'
            if rep and t.get('concrete_count') and i.m.name[:-1] in ('cmps', 'scas'):
                precondition_decidable(m, hx, i)
            try:
                s.H.emul_lines(m, [i])
            except Budget:
                raise Discard('budget')
            except Exception as e:
                if rep and t.get('concrete_count') and isinstance(e, RecursionError) and int(cnt.arg) > 64:
                    # hundreds of overlapping copies nest the copied value a level deeper per step: the interpreter's
                    # recursion limit, which the same number of single steps would meet as well - not the rep loop
                    raise Discard('depth-limit')
                if rep and t.get('concrete_count'):
                    t['raised'] = type(e).__name__
                    trace.append(t)
                    return m, trace, 'rep-raises'
                raise Discard('raises:emul:%s:%s' % (i.m.name, type(e).__name__))
            trace.append(t)
        elif op['op'] == 'probe':
            trace.append({'probe': True})
        elif op['op'] == 'save':
            saved = m.pool.copy()
            trace.append({'save': True})
        elif op['op'] == 'restore':
            if saved is not None:
                m.pool = saved.copy() if op.get('copy') else saved
                if not op.get('copy'):
                    saved = None
                trace.append({'restore': True})
            else:
                trace.append({'probe': True})
        elif op['op'] == 'snapshot':
            # the client saves and restores the state (a copy of the pool replaces the pool): semantically nothing
            m.pool = m.pool.copy()
            trace.append({'probe': True})
        else:
            raise ValueError(op)
        for k in m.pool.pool_mem:
            if not key_ok(k):
                raise Discard('foreign-address')
    return m, trace, None

# ------------------------------------------------------------ reference run

def run_ref(trace, val):
    image = refmodel.InitialImage(val['_image'])
    syms = dict((k, v) for k, v in val.items() if not k.startswith('_'))
    ref = refmodel.RefMachine(ref_initial(val), image, syms)
    kept = None
    for t in trace:
        if t.get('probe'):
            continue
        if t.get('save'):
            kept = (dict(ref.regs), dict(ref.mem))
            continue
        if t.get('restore'):
            ref.regs, ref.mem = dict(kept[0]), dict(kept[1])      # (the set of touched addresses keeps the abandoned branch's)
            continue
        affs = t['affs']
        if t.get('rep'):
            name = t['name'][:-1]
            n = 0
            while True:
                if ref.regs['ecx'] == 0:
                    break
                ref.exec_affs(affs)
                ref.regs['ecx'] = (ref.regs['ecx'] - 1) & M32
                n += 1
                if name in ('cmps', 'scas'):
                    if 0xF3 in t['prefix'] and ref.regs['zf'] == 0:
                        break
                    if 0xF2 in t['prefix'] and ref.regs['zf'] == 1:
                        break
                if n > 0x1000:
                    raise refmodel.Unsupported('rep count')
        else:
            ref.exec_affs(affs)
    return ref, image

def addr_expr_for(a, val):
    """Address expression (serialised) denoting the concrete address a."""
    s = sut()
    for sym in ('init_ebx', 'init_esp'):
        d = (a - val[sym]) & M32
        if d < 0x800 or d > M32 - 0x800:
            base = canon.ser_expr(s.regs[sym])
            if d == 0:
                return base
            return ['O', '+', [base, ['I', 'uint32', d]]]
    return ['I', 'uint32', a & M32]

def probe_plan(refs, vals, dense):
    """Addresses to read back, as offsets relative to a region, derived from the
    bytes the reference wrote (identical layout under every valuation by
    construction: offsets are relative to the same bases)."""
    ref, val = refs[0], vals[0]
    rel = set()
    for a in ref.touched:
        for sym in [k for k in val if k.startswith('_sum')] + ['init_ebx', 'init_esp']:
            d = (a - val[sym]) & M32
            if d < 0x800 or d > M32 - 0x800:
                rel.add((sym, d if d < 0x800 else d - (1 << 32)))
                break
        else:
            rel.add(('const', a))
    plan = set()
    for region, d in rel:
        for x in range(d - 4, d + (5 if dense else 2)):
            plan.add((region, x))
    return sorted(plan)

def early_probes(m, base_kind):
    """Read-back objects evaluated once on the FRESH machine; the very same objects are evaluated again after
    the history (a client may keep its query expressions)."""
    s = sut()
    out = {}
    regions = [('const', CONST_BASE)] if base_kind == 'const' else [('init_ebx', 0)]
    regions.append(('init_esp', 0))
    for region, origin in regions:
        for d in range(-6, 14):
            for w in (8, 16, 32):
                if region == 'const':
                    a = ['I', 'uint32', (origin + d) & M32]
                    key = ('const', (origin + d) & M32, w)
                else:
                    base = canon.ser_expr(s.regs[region])
                    a = base if d == 0 else ['O', '+', [base, ['I', 'uint32', d & M32]]]
                    key = (region, d, w)
                e = canon.deser_expr(['M', a, w, None, False], s.regs)
                try:
                    reset_budget()
                    m.eval_expr(e, {})
                except Exception:
                    continue
                out[key] = e
    return out

def check_history(ops, vals, dense=True, compare_flags=False, backing=False, reuse_probes=False):
    """One simulated history under several valuations.  Returns a dict:
    status 'ok' | 'discard' | 'violation'."""
    s = sut()
    held = {}
    scale = None
    for op in ops:
        if op.get('sumbase'):
            scale = op['sumbase']
    _SUM_SCALE[0] = scale
    if scale is not None:
        # the index register holds a large value so that the two-term base lands far from the plain data base, the
        # stack and the constant region (distinct symbolic bases are assumed not to alias, by the machine too)
        vals = [dict(v) for v in vals]
        for v in vals:
            v['init_ecx'] = (0x02000000 // scale) + (v['init_ecx'] & 0xff)
            v['_sum%d' % scale] = (v['init_ebx'] + scale * v['init_ecx']) & M32
    try:
        m, trace, early = run_real(ops, backing, held if reuse_probes else None)
    except Discard as d:
        return {'status': 'discard', 'reason': str(d)}
    finally:
        _SUM_SCALE[0] = None
    if early == 'rep-raises':
        return {'status': 'violation', 'class': 'rep-raises:' + trace[-1]['raised'],
                'detail': {'insn': trace[-1]['name'], 'exception': trace[-1]['raised']}}
    if any(t.get('rep') and not t.get('concrete_count') for t in trace):
        return {'status': 'discard', 'reason': 'symbolic-count'}
    # guard (vii): read-backs are expressed relative to the region (constant / data base / stack) a written
    # byte belongs to, found by distance under the valuation.  A CONSTANT cell that lies within reach of a
    # symbolic base under some valuation would be probed through a symbolic address the machine rightly
    # treats as unrelated (its non-aliasing assumption): such a history/valuation pair is ambiguous.
    consts = [int(k.arg) for k in m.pool.pool_mem if k.__class__.__name__ == 'ExprInt']
    for val in vals:
        syms = [k for k in val if k.startswith('_sum')] + ['init_ebx', 'init_esp']
        for sym in syms:
            for c in consts:
                d = (c - val[sym]) & M32
                if d < 0x1000 or d > M32 - 0x1000:
                    return {'status': 'discard', 'reason': 'alias-ambiguous-valuation'}
        for i, a in enumerate(syms):
            for b in syms[i + 1:]:
                d = (val[a] - val[b]) & M32
                if d < 0x2000 or d > M32 - 0x2000:
                    return {'status': 'discard', 'reason': 'alias-ambiguous-valuation'}
    refs = []
    try:
        for val in vals:
            refs.append(run_ref(trace, val))
    except refmodel.Unsupported as u:
        return {'status': 'discard', 'reason': 'unsupported:' + str(u)[:40]}
    # registers
    regnames = list(GPR) + ['zf', 'nf', 'pf', 'of', 'cf', 'af', 'df']
    reg_exprs = {}
    for r in regnames:
        reg_exprs[r] = canon.ser_expr(m.pool[s.regs[r]])
    # the public read accessor re-evaluates the stored value in the current state: same meaning required
    getreg_exprs = {}
    oos_getreg = [0]
    for r in GPR:
        reset_budget()
        try:
            getreg_exprs[r] = canon.ser_expr(m.get_reg(s.regs[r]))
        except Budget:
            return {'status': 'discard', 'reason': 'budget'}
        except Exception as ex:
            oos_getreg[0] += 1          # accessor outside the property: tallied
    plan = probe_plan([r for r, _ in refs], vals, dense)
    overlap_classes = set()
    # memory read-backs: the observe_at of the property
    mem_exprs = []
    for region, d in plan:
        for w in (8, 16, 32):
            if region == 'const':
                a = ['I', 'uint32', d & M32]
            else:
                base = region_base_ser(region)
                a = base if d == 0 else ['O', '+', [base, ['I', 'uint32', d & M32]]]
            hk = ('const', d & M32, w) if region == 'const' else (region, d, w)
            e = held.get(hk)
            if e is None:
                e = canon.deser_expr(['M', a, w, None, False], s.regs)
            reset_budget()
            try:
                r = m.eval_expr(e, {})
                mem_exprs.append((region, d, w, canon.ser_expr(r)))
            except Budget:
                return {'status': 'discard', 'reason': 'budget'}
            except Exception as ex:
                return {'status': 'violation', 'class': 'readback-raises:' + type(ex).__name__,
                        'detail': {'region': region, 'off': d, 'w': w}}
    for (ref, image), val in zip(refs, vals):
        oe = refmodel.OutputEvaluator(dict((k, v) for k, v in val.items() if not k.startswith('_')), image)
        for r in regnames:
            try:
                got = oe.value(reg_exprs[r])
            except refmodel.Unsupported as u:
                return {'status': 'discard', 'reason': 'unsupported-out:' + str(u)[:40]}
            except Exception as ex:
                return {'status': 'violation', 'class': 'reg-illformed', 'detail': {'reg': r, 'expr': reg_exprs[r], 'error': type(ex).__name__}}
            want = ref.regs[r]
            if got != want:
                return {'status': 'violation', 'class': 'reg', 'detail': {'reg': r, 'expr': reg_exprs[r], 'got': got, 'want': want,
                                                                          'valuation': val}}
            if r in getreg_exprs and getreg_exprs[r] != reg_exprs[r]:
                # tallied only: get_reg() re-evaluates the stored value in the CURRENT state, and the simplifier's
                # slice-of-memory rule rebuilds initial-memory cells without their 'term' marker, so a register
                # loaded from memory that was overwritten since can read back the new content.  The property
                # observes machine.pool and eval_expr(ExprMem), not this accessor.
                try:
                    g2 = oe.value(getreg_exprs[r])
                except Exception:
                    g2 = None
                if g2 != want:
                    oos_getreg[0] += 1
        for region, d, w, ser in mem_exprs:
            base = 0 if region == 'const' else val[region]
            a = (base + d) & M32
            want = ref.read(a, w)
            try:
                got = oe.value(ser)
            except refmodel.Unsupported as u:
                return {'status': 'discard', 'reason': 'unsupported-out:' + str(u)[:40]}
            except Exception as ex:
                return {'status': 'violation', 'class': 'mem-illformed', 'detail': {'region': region, 'off': d, 'w': w, 'expr': ser, 'error': type(ex).__name__}}
            if refmodel.width(ser) != w:
                return {'status': 'violation', 'class': 'mem-width', 'detail': {'region': region, 'off': d, 'w': w, 'expr': ser}}
            if got != want:
                return {'status': 'violation', 'class': 'mem', 'detail': {'region': region, 'off': d, 'w': w, 'expr': ser, 'got': got, 'want': want,
                                                                          'valuation': val}}
    return {'status': 'ok', 'probes': len(mem_exprs) * len(vals), 'touched': len(refs[0][0].touched), 'oos_getreg': oos_getreg[0],
            'rep': sum(1 for t in trace if t.get('rep'))}

# ------------------------------------------------------------ generators

def shape_from_index(idx):
    """The small space named by the property: <=2 stores + 1 load, widths
    8/16/32, offsets 0..7, constant or symbolic base.  28848 shapes."""
    base = 'sym' if idx % 2 == 0 else 'const'
    idx //= 2
    def acc(n):
        return ([8, 16, 32][n // 8], n % 8)
    if idx < 24:
        seq = [acc(idx)]
    elif idx < 24 + 576:
        idx -= 24
        seq = [acc(idx // 24), acc(idx % 24)]
    else:
        idx -= 600
        seq = [acc(idx // 576), acc((idx // 24) % 24), acc(idx % 24)]
    ops = []
    for n, (w, off) in enumerate(seq[:-1]):
        ops.append({'op': 'store', 'w': w, 'base': base, 'off': off, 'src': ['sym', 's%d' % n]})
    w, off = seq[-1]
    ops.append({'op': 'load', 'w': w, 'base': base, 'off': off, 'dst': 'ecx'})
    return ops
SMALL_SPACE = 2 * (24 + 576 + 13824)

DATA_REGS32 = ['eax', 'ecx', 'edx', 'ebp']
R8 = ['al', 'cl', 'dl', 'ah', 'ch', 'dh']
R16 = ['ax', 'cx', 'dx', 'bp']
PTR = {8: 'BYTE PTR', 16: 'WORD PTR', 32: 'DWORD PTR'}

def gen_off(rng):
    return rng.randrange(0, 8) if rng.random() < 0.75 else rng.randrange(-8, 16)

def mem_txt(rng, w, basereg='ebx'):
    off = gen_off(rng)
    if basereg == 'esp':
        off = rng.choice([0, 0, 4, 8, 1, 2, 3, 5, 6, -4])
    if off == 0 and rng.random() < 0.5:
        return '%s [%s]' % (PTR[w], basereg)
    return '%s [%s%+d]' % (PTR[w], basereg, off)

def gen_move_line(rng):
    k = rng.random()
    base = 'ebx' if rng.random() < 0.8 else 'esp'
    if k < 0.20:
        w = rng.choice([8, 16, 32])
        r = rng.choice({8: R8, 16: R16, 32: DATA_REGS32}[w])
        return 'mov %s, %s' % (mem_txt(rng, w, base), r)
    if k < 0.38:
        w = rng.choice([8, 16, 32])
        r = rng.choice({8: R8, 16: R16, 32: DATA_REGS32}[w])
        return 'mov %s, %s' % (r, mem_txt(rng, w, base))
    if k < 0.46:
        w = rng.choice([8, 16, 32])
        v = rng.choice([0, 1, 0x7f, 0x80, 0xff, 0x1234, 0x11223344, 0xffffffff]) & ((1 << w) - 1)
        return 'mov %s, %d' % (mem_txt(rng, w, base), v)
    if k < 0.54:
        w = rng.choice([8, 16, 32])
        regs = {8: R8, 16: R16, 32: DATA_REGS32}[w]
        return 'mov %s, %s' % (rng.choice(regs), rng.choice(regs))
    if k < 0.60:
        w = rng.choice([8, 16, 32])
        r = rng.choice({8: R8, 16: R16, 32: DATA_REGS32}[w])
        v = rng.choice([0, 1, 0x7f, 0x80, 0xff, 0x1234, 0x80000000, 0xffffffff]) & ((1 << w) - 1)
        return 'mov %s, %d' % (r, v)
    if k < 0.68:
        w = rng.choice([8, 16])
        op = rng.choice(['movzx', 'movsx'])
        if rng.random() < 0.6:
            return '%s %s, %s' % (op, rng.choice(DATA_REGS32), mem_txt(rng, w, base))
        return '%s %s, %s' % (op, rng.choice(DATA_REGS32), rng.choice({8: R8, 16: R16}[w]))
    if k < 0.74:
        if rng.random() < 0.5:
            a, b = rng.sample(DATA_REGS32, 2)
            return 'xchg %s, %s' % (a, b)
        return 'xchg %s, %s' % (mem_txt(rng, 32, base), rng.choice(DATA_REGS32))
    if k < 0.84:
        y = rng.random()
        if y < 0.4:
            return 'push %s' % rng.choice(DATA_REGS32)
        if y < 0.6:
            return 'push %d' % rng.choice([0, 5, 0x12345678])
        return 'push %s' % mem_txt(rng, 32, 'ebx')
    if k < 0.94:
        if rng.random() < 0.7:
            return 'pop %s' % rng.choice(DATA_REGS32)
        return 'pop %s' % mem_txt(rng, 32, 'ebx')
    if k < 0.96:
        return 'lea %s, [%s%+d]' % (rng.choice(DATA_REGS32), rng.choice(['ebx', 'esp']), rng.randrange(-8, 16))
    if k < 0.985:
        # a 64-bit cell (x87 store of the top of stack, an uninterpreted function of float_st0): later accesses may
        # start up to 7 bytes inside it
        return 'fst QWORD PTR [%s%+d]' % (base, rng.choice([0, 4, 8, 1, 2, -4, 3]))
    return gen_misc_line(rng)

MISC = ['pushfd', 'popfd', 'bswap eax', 'bswap ecx', 'cdq', 'cwde', 'cbw', 'cwd', 'lahf', 'sahf', 'sete al', 'setb cl', 'setne dh', 'setl dl',
        'cmove eax, edx', 'cmovb ecx, eax', 'cmovne edx, ecx', 'push cx', 'push ax', 'pop dx', 'pop cx', 'xchg ax, cx', 'xchg al, ah', 'xchg dl, cl',
        'cmc', 'clc', 'stc', 'nop', 'movzx cx, al', 'movsx dx, cl', 'push esp', 'enter 8, 0']
def gen_misc_line(rng):
    return rng.choice(MISC)

ARITH = ['add', 'sub', 'xor', 'and', 'or', 'adc', 'sbb', 'cmp', 'test']
def gen_arith_line(rng):
    k = rng.random()
    if k < 0.5:
        op = rng.choice(ARITH)
        w = rng.choice([8, 16, 32])
        regs = {8: R8, 16: R16, 32: DATA_REGS32}[w]
        y = rng.random()
        if y < 0.4:
            return '%s %s, %s' % (op, rng.choice(regs), rng.choice(regs))
        if y < 0.6:
            return '%s %s, %d' % (op, rng.choice(regs), rng.choice([0, 1, 2, 0x7f, 0x80, 0xff]))
        if y < 0.8:
            return '%s %s, %s' % (op, mem_txt(rng, w), rng.choice(regs))
        return '%s %s, %s' % (op, rng.choice(regs), mem_txt(rng, w))
    if k < 0.7:
        return '%s %s' % (rng.choice(['inc', 'dec', 'neg', 'not']), rng.choice(DATA_REGS32 + R8))
    return '%s %s, %d' % (rng.choice(['shl', 'shr', 'sar', 'rol', 'ror']), rng.choice(DATA_REGS32), rng.choice([0, 1, 4, 31]))

def gen_string_program(rng, base):
    """cld/std, pointers and count set up with real instructions, concrete
    bytes stored, then (rep) string instructions."""
    ops = []
    def ins(line):
        ops.append({'op': 'insn', 'line': line})
    ins(rng.choice(['cld', 'cld', 'std']))
    si, di = rng.randrange(0, 12), rng.randrange(0, 24)
    ins('lea esi, [ebx%+d]' % si)
    ins('lea edi, [ebx%+d]' % di)
    for _ in range(rng.randrange(0, 4)):
        w = rng.choice([8, 16, 32])
        v = rng.choice([0, 0x41, 0x4141, 0x41424344, 0x11223344, 0xffffffff, 0x4100]) & ((1 << w) - 1)
        ins('mov %s [ebx%+d], %d' % (PTR[w], rng.randrange(-4, 28), v))
    kind = rng.random()
    sfx = rng.choice(['b', 'b', 'w', 'd'])
    if rng.random() < 0.012:
        # a count at (or just below) the rep loop's documented 0x1000 cap; lods keeps the state small
        ins('mov ecx, %d' % rng.choice([0x1000, 0x1000, 0xfff]))
        ins('rep lods' + sfx)
        return ops
    if kind < 0.45:
        # (rarely a count beyond 256: the loop must run that many single steps, far below its 0x1000 cap)
        ins('mov ecx, %d' % (rng.choice([0x101, 0x120]) if rng.random() < 0.015 else rng.choice([0, 1, 2, 3, 4, 5, 8])))
        if rng.random() < 0.3:
            ins('mov eax, %d' % rng.choice([0x41, 0x41424344, 0]))
        pfx = 'rep '
        if rng.random() < 0.3:
            # the other repeat prefix (F2) on a non-comparing string instruction is a plain rep, whatever zf holds
            pfx = 'repne '
            z = rng.random()
            if z < 0.5:
                ins('xor edx, edx')                    # zf = 1, concretely
            elif z < 0.75:
                ins('mov edx, 1')
                ins('test edx, edx')                   # zf = 0
        ins(pfx + rng.choice(['movs', 'movs', 'stos', 'lods']) + sfx)
    elif kind < 0.75:
        # repe/repne cmps/scas over concrete bytes
        for k in range(0, 8, 4):
            ins('mov DWORD PTR [ebx%+d], %d' % (si + k, rng.choice([0x41414141, 0x41424142, 0x00410041])))
            ins('mov DWORD PTR [ebx%+d], %d' % (di + k, rng.choice([0x41414141, 0x41424142, 0x41414241])))
        ins('mov eax, %d' % rng.choice([0x41, 0x42, 0x4141, 0x41414141]))
        ins('mov ecx, %d' % rng.choice([0, 1, 2, 3, 4, 6]))
        if rng.random() < 0.5:
            ins('cld')
            ops[0] = {'op': 'insn', 'line': 'cld'}
        if rng.random() < 0.5:
            # a concrete zero flag left by an earlier instruction (the strlen idiom: xor/test before repne scas)
            z = rng.random()
            if z < 0.35:
                ins('xor edx, edx')                    # zf = 1
            elif z < 0.7:
                ins('mov edx, 1')
                ins('test edx, edx')                   # zf = 0
            else:
                ins('mov edx, %d' % rng.choice([0, 5]))
                ins('cmp edx, 5')
        if rng.random() < 0.25:
            # the same instruction as raw bytes with ANOTHER legacy prefix in front of the repeat prefix (a segment
            # override or a redundant second one): the repeat prefix is then not the first prefix byte
            rp = rng.choice([0xf3, 0xf2])
            opc = rng.choice([0xa6, 0xa7, 0xae, 0xaf])
            pre = rng.choice([[0x2e], [0x3e], [0x26], [0x3e, 0x2e]])
            order = pre + [rp] if rng.random() < 0.7 else [rp] + pre
            ops.append({'op': 'insn', 'line': 'bytes', 'hex': bytes(order + [opc]).hex()})
        else:
            ins(rng.choice(['repe', 'repne']) + ' ' + rng.choice(['cmps', 'scas']) + rng.choice(['b', 'b', 'w', 'd']))
    else:
        for _ in range(rng.randrange(1, 4)):
            ins(rng.choice(['movs', 'stos', 'lods']) + rng.choice(['b', 'w', 'd']))
    for _ in range(rng.randrange(0, 3)):
        ins(gen_move_line(rng))
    return ops

FLAG_MOVERS = ['sete al', 'sete ah', 'setb dh', 'setne dh', 'setl dl', 'setns ch', 'setbe cl', 'seto al', 'cmove eax, edx', 'cmovb ecx, eax',
               'cmovne edx, ecx', 'cmovz ax, cx', 'cmovb dx, cx', 'cmovs cx, ax', 'lahf', 'sahf', 'pushfd', 'popfd', 'pop eax', 'pop ecx', 'cmc', 'clc', 'stc',
               'sete BYTE PTR [ebx+1]', 'setb BYTE PTR [ebx+2]', 'mov BYTE PTR [ebx+3], ah', 'mov DWORD PTR [ebx+4], eax']
def gen_sumbase_program(rng):
    """Memory traffic through ONE two-term symbolic base, [ebx+ecx*scale+d] (base + index operands, zero
    displacement included); ebx and ecx themselves are never written."""
    scale = rng.choice(SUM_SCALES)
    S = 'ebx+ecx*4' if scale == 4 else 'ebx+ecx'
    regs = {8: ['al', 'dl', 'ah', 'dh'], 16: ['ax', 'dx', 'bp'], 32: ['eax', 'edx', 'ebp']}
    def mem(w):
        d = rng.choice([0, 0, 0, 1, 2, 3, 4, 5, 6, 8, -4, -1, -2])
        return '%s [%s%s]' % (PTR[w], S, '%+d' % d if d else '')
    lines = []
    for _ in range(min(10, 2 + int(rng.expovariate(1 / 3.0)))):
        w = rng.choice([8, 16, 32])
        k = rng.random()
        if k < 0.35:
            lines.append('mov %s, %s' % (mem(w), rng.choice(regs[w])))
        elif k < 0.45:
            lines.append('mov %s, %d' % (mem(w), rng.choice([0, 1, 0x7f, 0x80, 0x1234, 0x11223344]) & ((1 << w) - 1)))
        elif k < 0.72:
            lines.append('mov %s, %s' % (rng.choice(regs[w]), mem(w)))
        elif k < 0.78:
            lines.append('%s %s, %s' % (rng.choice(['movzx', 'movsx']), rng.choice(regs[32]), mem(rng.choice([8, 16]))))
        elif k < 0.84:
            lines.append('%s %s, %s' % (rng.choice(['add', 'or', 'xor']), mem(w), rng.choice(regs[w])))
        elif k < 0.89:
            lines.append(rng.choice(['push %s' % mem(32), 'pop %s' % mem(32), 'xchg %s, %s' % (mem(32), rng.choice(regs[32]))]))
        elif k < 0.93:
            lines.append('fst QWORD PTR [%s%s]' % (S, rng.choice(['', '+4', '-4', '+1'])))
        else:
            lines.append(rng.choice(['mov eax, edx', 'mov dl, ah', 'push eax', 'pop edx', 'mov ebp, 5']))
    ops = [{'op': 'insn', 'line': l, 'sumbase': scale} for l in lines]
    if rng.random() < 0.15:
        ops.insert(rng.randrange(1, len(ops) + 1), {'op': 'snapshot'})
    return ops

def gen_flags_program(rng):
    """Flags moved into registers / memory over CONCRETE register contents, with the flags still
    symbolic or made concrete by a compare on constants."""
    ops = []
    for r in rng.sample(['eax', 'ecx', 'edx'], rng.choice([1, 2, 3])):
        ops.append({'op': 'insn', 'line': 'mov %s, %d' % (r, rng.choice([0, 0xFF, 0x11223344, 0x80000000, 0xFFFFFFFF, 0x1234]))})
    z = rng.random()
    if z < 0.2:
        ops.append({'op': 'insn', 'line': 'xor ebp, ebp'})
    elif z < 0.4:
        ops.append({'op': 'insn', 'line': 'mov ebp, %d' % rng.choice([0, 0x80, 5])})
        ops.append({'op': 'insn', 'line': rng.choice(['test ebp, ebp', 'cmp ebp, 5'])})
    elif z < 0.7:
        # flags that are CONDITIONS with constant branches (cmc on a symbolic carry, bsf/test of a symbolic register)
        # next to flags made constant by arithmetic on constants; conditions in registers (cmovcc of constants)
        for line in rng.sample(['cmc', 'inc eax', 'dec ecx', 'bsf ebp, esi', 'bsf ebp, edi', 'cmovz eax, ecx', 'cmovb edx, eax', 'test eax, eax',
                                'cmp eax, ecx', 'test edx, edx'], rng.choice([2, 3, 4])):
            ops.append({'op': 'insn', 'line': line})
    if rng.random() < 0.35:
        # width-changing instructions over CONCRETE register contents whose halves differ in sign and in being zero
        # (their lifted forms put an expression wider than its slot into a compose: the fold must cut it to the slot)
        r = rng.choice(['eax', 'eax', 'ecx', 'edx'])
        ops.append({'op': 'insn', 'line': 'mov %s, %d' % (r, rng.choice([0x12340001, 0x12348001, 0x1201, 0x1281, 0xFFFF7F7F, 0x00018080, 0x7FFF8000]))})
        short = {'eax': ('ax', 'al', 'ah'), 'ecx': ('cx', 'cl', 'ch'), 'edx': ('dx', 'dl', 'dh')}[r]
        for line in rng.sample(['cwde', 'cbw', 'cdq', 'cwd', 'movsx %s, %s' % (r, short[0]), 'movsx %s, %s' % (r, short[1]), 'movzx %s, %s' % (r, short[2]),
                                'movsx %s, %s' % (short[0], short[1]), 'bswap %s' % r, 'xchg %s, %s' % (short[1], short[2]), 'lea %s, [%s+%s]' % (short[0], r, r),
                                'movzx ebp, %s' % short[0], 'movsx ebp, %s' % short[2]], rng.choice([1, 2, 3])):
            ops.append({'op': 'insn', 'line': line})
    for _ in range(rng.randrange(1, 6)):
        ops.append({'op': 'insn', 'line': rng.choice(FLAG_MOVERS) if rng.random() < 0.8 else gen_move_line(rng)})
    return ops

def gen_history(rng):
    cfg, ops = gen_history0(rng)
    save_restore(cfg, ops)
    return cfg, ops

def save_restore(cfg, ops):
    """Second pass (keyed by the history itself, the main stream of choices is untouched): the client saves the state
    (a copy of the pool), lets the machine run on, and later puts the saved pool back - the branch in between is
    abandoned.  Not with a write-through backing store (a restore of the pool does not undo the callbacks' writes)."""
    if cfg.get('backing') is True or len(ops) < 2 or cfg.get('mode') in ('string',):
        return
    r2 = random.Random('save/' + hashlib.sha256(json.dumps(ops, sort_keys=True).encode()).hexdigest())
    if r2.random() >= 0.12:
        return
    i = r2.randrange(0, len(ops))
    j = r2.randrange(i + 1, len(ops) + 1)
    ops.insert(j, {'op': 'restore', 'copy': r2.random() < 0.4})
    ops.insert(i, {'op': 'save'})
    if r2.random() < 0.5:
        # the abandoned branch rewrites a cell the saved state already holds, at the same address and width
        prior = [o for o in ops[:i] if o.get('op') == 'store']
        if prior:
            ops.insert(i + 1 + r2.randrange(0, j - i), dict(r2.choice(prior), src=['reg', r2.choice(['esi', 'edi', 'eax', 'edx']), 0]))

def gen_history0(rng):
    mode = rng.choice(['mem'] * 11 + ['insn'] * 5 + ['string'] * 3 + ['flags'] * 2 + ['arith'] + ['sumbase'])
    base = rng.choice(['sym', 'const'])
    n = min(12, 1 + int(rng.expovariate(1 / 4.0)))
    ops = []
    nsym = 0
    if base == 'const' and mode != 'mem':
        ops.append({'op': 'insn', 'line': 'mov ebx, %d' % CONST_BASE})
    if mode == 'mem':
        for _ in range(n):
            b = base if rng.random() < 0.85 else 'stack'
            w = rng.choice([8, 16, 32])
            off = gen_off(rng)
            if rng.random() < 0.12:
                # one instruction, several assignments, all reading the pre-state
                y = rng.random()
                r1, r2 = rng.sample(DATA_REGS32, 2)
                if y < 0.35:      # exchange a register with memory
                    subs = [{'op': 'load', 'w': 32, 'base': b, 'off': off, 'dst': r1},
                            {'op': 'store', 'w': 32, 'base': b, 'off': off, 'src': ['reg', r1, 0]}]
                elif y < 0.6:     # load a register and overwrite (part of) what it was loaded from
                    subs = [{'op': 'load', 'w': 32, 'base': b, 'off': off, 'dst': r1},
                            {'op': 'store', 'w': w, 'base': b, 'off': off + rng.choice([0, 1, 2]), 'src': ['reg', r2, 0]}]
                elif y < 0.8:     # two disjoint (possibly adjacent) stores
                    w2 = rng.choice([8, 16, 32])
                    subs = [{'op': 'store', 'w': w, 'base': b, 'off': off, 'src': ['reg', r1, 0]},
                            {'op': 'store', 'w': w2, 'base': b, 'off': off + w // 8 + rng.choice([0, 0, 1]), 'src': ['load', b, off]}]
                else:             # store computed from a cell that the same instruction overwrites
                    subs = [{'op': 'store', 'w': 32, 'base': b, 'off': off, 'src': ['load', b, off + rng.choice([-2, -1, 1, 2, 4])]},
                            {'op': 'load', 'w': 16, 'base': b, 'off': off + 1, 'dst': r2, 'lo': 0}]
                ops.append({'op': 'multi', 'subs': subs})
                continue
            if rng.random() < 0.6:
                y = rng.random()
                if y < 0.5:
                    src = ['sym', 's%d' % nsym]
                    nsym += 1
                elif y < 0.7:
                    src = ['reg', rng.choice(GPR), rng.choice([0, 8, 16] if w == 8 else [0, 16] if w == 16 else [0])]
                elif y < 0.85:
                    src = ['const', rng.choice(BOUND32)]
                else:
                    src = ['load', b, gen_off(rng)]
                ops.append({'op': 'store', 'w': w, 'base': b, 'off': off, 'src': src})
            else:
                op = {'op': 'load', 'w': w, 'base': b, 'off': off, 'dst': rng.choice(DATA_REGS32)}
                if w != 32:
                    op['lo'] = rng.choice([0, 8] if w == 8 else [0, 16] if rng.random() < 0.3 else [0])
                ops.append(op)
        if base == 'sym' and rng.random() < 0.10:
            # a 64-bit cell among the stores / loads (they are evaluated with bare eval_instr), and state save / restore
            ops.insert(rng.randrange(0, len(ops) + 1), {'op': 'insn', 'line': 'fst QWORD PTR [ebx%+d]' % rng.choice([0, 0, 4, 1, -4, 2])})
        if rng.random() < 0.10:
            for _ in range(rng.choice([1, 2])):
                ops.insert(rng.randrange(0, len(ops) + 1), {'op': 'snapshot'})
    elif mode == 'insn':
        pm = rng.choice([0.0, 0.15, 0.4])
        style = rng.choice(['single', 'single', 'block', 'reuse'])
        lines = [gen_misc_line(rng) if rng.random() < pm else gen_move_line(rng) for _ in range(n)]
        if rng.random() < 0.2:
            # the same bitwise / additive operation with two constants on one destination (the constants are folded
            # into one inside a flattened n-ary node) - decided here, unlike the general arithmetic of 'arith' mode
            w = rng.choice([8, 16, 32, 32])
            dst = rng.choice({8: R8, 16: R16, 32: DATA_REGS32}[w]) if rng.random() < 0.6 else mem_txt(rng, w)
            opn = rng.choice(['or', 'or', 'and', 'xor', 'add'])
            c1, c2 = rng.sample([3, 5, 6, 0x7f, 0xff, 0x81, 0x100, 0x101, 0xf0f0, 0x80000001], 2)
            at = rng.randrange(0, len(lines) + 1)
            lines[at:at] = ['%s %s, %d' % (opn, dst, c & ((1 << w) - 1)) for c in (c1, c2)]
        if base == 'const' and rng.random() < 0.3:
            # absolute operands (ds:[disp32]) instead of the register that holds the constant base
            def absolutise(line):
                mm = re.search(r'\[ebx([+-]\d+)?\]', line)
                if mm is None or line.startswith('lea'):
                    return line
                return line[:mm.start()] + '[%d]' % (CONST_BASE + int(mm.group(1) or 0)) + line[mm.end():]
            lines = [absolutise(l) for l in lines]
        if style == 'block':
            if rng.random() < 0.4:
                # the get-PC idiom: a call to the next instruction inside a block (pushes the address of what follows)
                lines.insert(rng.randrange(0, len(lines)), 'hex:e800000000')
            k = 0
            while k < len(lines):
                step = rng.choice([1, 2, 3, 4])
                chunk = lines[k:k + step]
                if step > 1 or chunk[0].startswith('hex:'):
                    ops.append({'op': 'block', 'lines': chunk})
                else:
                    ops.append({'op': 'insn', 'line': chunk[0]})
                k += step
        else:
            if style == 'reuse' and len(lines) >= 2:
                # repeat some instructions so that the same instruction object is stepped more than once
                lines = lines + [rng.choice(lines) for _ in range(rng.randrange(1, 4))]
            for line in lines:
                op = {'op': 'insn', 'line': line}
                if style == 'reuse':
                    op['reuse'] = 1
                ops.append(op)
    elif mode == 'sumbase':
        ops = gen_sumbase_program(rng)         # (always over the symbolic data base)
        base = 'sym'
    elif mode == 'string':
        ops += gen_string_program(rng, base)
    elif mode == 'flags':
        ops += gen_flags_program(rng)
    else:
        for _ in range(n):
            ops.append({'op': 'insn', 'line': gen_arith_line(rng) if rng.random() < 0.7 else gen_move_line(rng)})
        if rng.random() < 0.5:
            # the same operation with two constants on one unchanged (symbolic) destination: the two constants are
            # folded into one inside a flattened n-ary node
            w = rng.choice([8, 16, 32, 32])
            dst = rng.choice({8: R8, 16: R16, 32: DATA_REGS32}[w]) if rng.random() < 0.6 else mem_txt(rng, w)
            opn = rng.choice(['or', 'or', 'and', 'xor', 'add', 'sub'])
            c1, c2 = rng.sample([3, 5, 6, 0x7f, 0xff, 0x81, 0x100, 0x101, 0xf0f0, 0x80000001], 2)
            pair = [{'op': 'insn', 'line': '%s %s, %d' % (opn, dst, c & ((1 << w) - 1))} for c in (c1, c2)]
            at = rng.randrange(0, len(ops) + 1)
            ops[at:at] = pair
    return {'mode': mode, 'base': base, 'nsym': max(nsym, 2), 'backing': (rng.choice([True, 'read-only']) if (base == 'const' and rng.random() < 0.4) else False),
            'reuse_probes': rng.random() < 0.25}, ops

# ------------------------------------------------------------ classification

def overlap_classes(ops):
    """Overlap relation between each direct load and the earlier direct stores
    on the same base (coverage measure)."""
    out = set()
    stores = []
    flat = []
    for op in ops:
        flat += op['subs'] if op['op'] == 'multi' else [op]
    for op in flat:
        if op['op'] == 'store':
            stores.append(op)
        elif op['op'] == 'load':
            for st in stores:
                if st['base'] != op['base']:
                    continue
                a0, a1 = st['off'], st['off'] + st['w'] // 8
                b0, b1 = op['off'], op['off'] + op['w'] // 8
                if a0 == b0 and a1 == b1:
                    c = 'exact'
                elif a1 <= b0 or b1 <= a0:
                    c = 'adjacent' if (a1 == b0 or b1 == a0) else 'disjoint'
                elif a0 <= b0 and b1 <= a1:
                    c = 'inside-wider'
                elif b0 <= a0 and a1 <= b1:
                    c = 'covering-narrower'
                elif b0 < a0:
                    c = 'tail-overlap'
                else:
                    c = 'head-overlap'
                out.add('%s/%d>%d/%s' % (c, st['w'], op['w'], op['base']))
    return sorted(out)
