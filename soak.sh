#!/bin/bash
# Soak: every quick check under a range of VERIF_SEED values, evidence and replays kept out of the
# committed directories.  A non-zero exit code or a VIOLATION line on the unchanged tree is a false
# alarm (or a genuine defect) to be investigated.   usage: soak.sh <first seed> <last seed> [checks...]
A=${1:-10}; B=${2:-20}; shift 2
CHECKS=${@:-C07 C10 C12 C13}
OUT=${VERIF_SOAK_DIR:-/dev/shm/miasmx-soak.$$}
mkdir -p $OUT
cd "$(dirname "$0")"
bad=0
for s in $(seq $A $B); do
  for p in $CHECKS; do
    VERIF_SEED=$s VERIF_EVIDENCE_DIR=$OUT/ev VERIF_REPLAY_DIR=$OUT/rp timeout 3600 /venv/bin/python vcheck.py $p > $OUT/$p.$s.txt 2>&1
    rc=$?
    echo "seed=$s $p rc=$rc $(grep -c '^VIOLATION' $OUT/$p.$s.txt) violations $(grep -h 'class=' $OUT/$p.$s.txt | tr -d ' ' | tr '\n' ' ' | cut -c1-150)"
    if [ $rc -ne 0 ]; then bad=$((bad+1)); fi
  done
done
echo "soak done: $bad non-zero exits; outputs in $OUT"
