#!/usr/bin/env python3
# Regenerates MANIFEST.json (kept in one place so that it stays valid and in step with the checks).
import json, os
HERE = os.path.dirname(os.path.abspath(__file__))
PY = '/venv/bin/python'
NA = {
 'C01': 'pure function of the byte string (for-all-inputs agreement with the IA-32 manual); no schedule, fault, clock or shared state enters it, so deterministic simulation has nothing to decide - it needs an independent IA-32 reference, i.e. another technique',
 'C02': 'pure function of the text line; needs a reference disassembler as oracle, no interleaving/fault dimension',
 'C03': 'pure metamorphic input property of asm/dis (fixpoint of a round trip); no history, schedule or fault in it',
 'C04': 'pure function of (instruction, CPU state); needs a processor reference, not a simulator of schedules and faults',
 'C05': 'for-all-valuations algebraic property of a pure function (plus its termination); nothing for a scheduler or fault injector to own',
 'C06': 'pure function of (expression, state, valuation); no nondeterminism, I/O or history',
 'C08': 'pure function of the instruction (dependency probing over states is input generation, not simulation)',
 'C09': 'pure function of the bytes; oracle would be GNU as, a differential input test',
 'C11': 'pure function of the bytes (well-typedness of lifted IR)',
 'C14': 'pure function of the operands (modular arithmetic laws)',
 'C15': 'pure function of the expression (structural laws of IR nodes)',
 'C16': 'pure function of the expression / pattern',
 'C17': 'pure function of (bytes, offset): table lookup plus address arithmetic',
 'C18': 'pure function of the 32-bit word',
 'C19': 'pure metamorphic input property of the assembler',
}
CHECKS = {
 'C12': {
  'engine': 'sim_calls+sim_cache',
  'technique': 'deterministic simulation: seeded interleaved API-call histories over shared objects vs isolated pristine executions, plus simulated process lifetimes over a fault-injected parser-table cache directory',
  'text': 'Seeded exploration (not proof): every run is one seed-determined history of API calls by several logical clients, (entry points in all their calling conventions, well-formed and malformed bytes, lines and expressions, single and repeated calls) executed by the real code in a pristine forked process and compared call by call with the isolated execution of each thread of explicit dependence; inputs and shared tables are digested before/after; a second world restarts real interpreters over a cache directory left empty, warm, stale, torn, foreign or unwritable by earlier (possibly killed) processes. A clean batch is evidence bounded by the generators and budgets reported in the evidence file.',
  'note': 'Trusted: fork() gives an exact pristine copy of post-import state; PYTHONHASHSEED pinned to 0 here (seed dependence is C13); canonical structural serialisation written for this check; memo flags put on a result object by its producing call are treated as part of that object. One listed finding (is_eval-leak) is attributed through a corrective shim in a re-run, never in the deciding run.',
  'design': 'DESIGN.md 4.1',
 },
 'C07': {
  'engine': 'sim_machine',
  'technique': 'deterministic simulation: seeded store/load/instruction histories on the real symbolic machine, refinement-checked against a concrete byte-addressed reference machine under several valuations',
  'text': 'Seeded exploration with a reference model: histories of stores, loads and state-moving instructions (length 1..12) are executed by the real emulator and by an independent little-endian byte-memory interpreter of the same lifted semantics; every register and a dense window of memory read-backs of widths 8/16/32 are compared under several valuations of the initial symbols. The small space named by the property (<=2 stores + 1 load, widths 8/16/32, offsets 0..7, constant or symbolic base) is sampled without replacement: completely in the thorough tier, a stated fraction in the quick tier.',
  'note': 'Trusted: the ~300-line reference evaluator (standard bit-vector meaning of the IR operators); one symbolic data base per history and a stack far away from it (the non-aliasing assumption miasmX itself makes); histories on which emulation raises, whose repe/repne flag is not concrete at some step, or whose lifted assignment is ill-typed are discarded and counted; general arithmetic/logic instructions are tallied only (their mismatches come from the simplifier, C05/C06) - pairs of or/and/xor/add with constants on one destination do decide; a sumbase history uses one two-term base (ebx+ecx*scale) instead of the single register; 64-bit cells come from x87 stores whose conversion both sides treat as the same uninterpreted function.',
  'design': 'DESIGN.md 4.3',
 },
 'C10': {
  'engine': 'sim_stream',
  'technique': 'deterministic simulation of the reader seam: seeded byte images behind three stream back ends with EOF/EIO faults at every field boundary, suffix-equivalence and over-read oracles on the recorded read log',
  'text': 'Decides the stream clauses only (offset bookkeeping incl. seek/open positioning, shared file handles and sparse images beyond 4 GiB, suffix equivalence, no over-read, truncation at every length reported as absent, same behaviour on every back end and under injected EOF/EIO at any read, agreement of a sample of decodes with a pristine process). The two for-all-inputs totality clauses are not a simulation target; crashes seen on arbitrary bytes are tallied under out_of_scope_observations and never decide.',
  'note': 'Trusted: fake file / virt back ends written for this check (plus a real buffered OS file with unflushed writes); images are built from real assembler output, structured random encodings and junk; PYTHONHASHSEED pinned to 0; after a failed decode the stream offset is unspecified.',
  'design': 'DESIGN.md 4.2',
 },
 'C13': {
  'engine': 'sim_hashseed',
  'technique': 'deterministic simulation of interpreter start-up nondeterminism: the same seeded workload in fresh interpreters differing only in PYTHONHASHSEED and allocation pattern; logs compared item by item',
  'text': 'Decides the seed/process-independence clause: simplified forms, lifted semantics, rendered instructions (incl. operands adding several symbols) and state dumps (incl. the state committed by every lifted instruction of the workload) must be byte-identical across fresh interpreters with different string-hash keys and perturbed allocation order. Idempotence, operand-order insensitivity and insensitivity to object sharing are checked on the same generated items inside each interpreter and are labelled generated-input checks, not simulation.',
  'note': 'Trusted: deterministic call budget instead of wall clock; items on which any interpreter hits the budget, the alarm or an exception are dropped for all; an address-order difference must show under 2 of 6 seeded allocation patterns to be reported.',
  'design': 'DESIGN.md 4.4',
 },
}
def build(claimed):
    checks = []
    for pid in sorted(claimed):
        c = CHECKS[pid]
        checks.append({
            'property_id': pid,
            'quick_cmd': '%s vcheck.py %s --tier quick' % (PY, pid),
            'thorough_cmd': '%s vcheck.py %s --tier thorough' % (PY, pid),
            'evidence_file': 'evidence/%s.json' % pid,
            'replay_cmd_template': '%s vcheck.py %s --replay {path}' % (PY, pid),
            'engine': c['engine'],
            'level_claimed': {'category': 'exploration', 'text': c['text'], 'design_ref': c['design']},
            'level_note': c['note'],
            'technique': c['technique'],
        })
    na = [{'property_id': k, 'reason': v} for k, v in sorted(NA.items())]
    for pid in sorted(CHECKS):
        if pid not in claimed:
            na.append({'property_id': pid, 'reason': 'applicable to this technique (DESIGN.md 0) but its check is not registered yet in this commit; not claimed'})
    na.sort(key=lambda x: x['property_id'])
    return {
        'version': 1,
        'setup_cmd': '%s setup_check.py' % PY,
        'hooks': {'guard': 'MIASMX_VERIF', 'enable': 'no hook exists: every seam the simulator needs is already an interface of miasmX (TMPDIR, builtins.open, bin_stream duck typing, func_read/func_write, PYTHONHASHSEED, fork); checks import the working tree of /repo directly',
                  'baseline_off_cmd': 'cd /repo && /venv/bin/python -m pytest -ra -q -p no:cacheprovider --timeout=900 --continue-on-collection-errors',
                  'source_commits': [], 'add_only': True},
        'engines': [
            {'name': 'sim_calls', 'path': 'sim/sim_calls.py', 'serves_properties': ['C12'], 'kind_free_text': 'seeded scheduler over API-call clients, fork()ed pristine worlds, isolated reference executions'},
            {'name': 'sim_cache', 'path': 'sim/sim_cache.py', 'serves_properties': ['C12'], 'kind_free_text': 'simulated process lifetimes over a fault-injected cache directory (crash, torn, stale, ENOSPC, read-only)'},
            {'name': 'sim_machine', 'path': 'sim/sim_machine.py', 'serves_properties': ['C07'], 'kind_free_text': 'history generator + concrete reference machine (refinement check)'},
            {'name': 'sim_stream', 'path': 'sim/sim_stream.py', 'serves_properties': ['C10'], 'kind_free_text': 'reader-seam simulator with EOF/EIO injection and read log'},
            {'name': 'sim_hashseed', 'path': 'sim/c13.py', 'serves_properties': ['C13'], 'kind_free_text': 'fresh interpreters under controlled PYTHONHASHSEED and allocation noise'},
        ],
        'checks': checks,
        'not_applicable': na,
        'notes': 'Technique: deterministic simulation with fault injection only. Exit codes: 0 held, 1 VIOLATION (with replay file), 2 HARNESS-ERROR (never a verdict). VERIF_SEED selects the batch; VERIF_WORKERS the parallelism (does not change the set of runs); VERIF_REPO the tree under test (default /repo).',
    }
if __name__ == '__main__':
    import sys
    claimed = sys.argv[1:] or sorted(CHECKS)
    m = build(claimed)
    with open(os.path.join(HERE, 'MANIFEST.json'), 'w') as f:
        json.dump(m, f, indent=1)
        f.write('\n')
