#!/bin/bash
# Thorough tier of every claimed check, one after the other, evidence and replays kept out of the
# committed directories.   usage: thorough_all.sh [checks...]
CHECKS=${@:-C07 C10 C13 C12}
OUT=${VERIF_SOAK_DIR:-/dev/shm/miasmx-thorough.$$}
mkdir -p $OUT
cd "$(dirname "$0")"
bad=0
for p in $CHECKS; do
  VERIF_EVIDENCE_DIR=$OUT/ev VERIF_REPLAY_DIR=$OUT/rp timeout 14400 /venv/bin/python vcheck.py $p --tier thorough > $OUT/$p.txt 2>&1
  rc=$?
  echo "$p rc=$rc $(tail -1 $OUT/$p.txt | cut -c1-200)"
  if [ $rc -ne 0 ]; then bad=$((bad+1)); fi
done
echo "thorough done: $bad non-zero exits; outputs in $OUT"
