#!/venv/bin/python
# MANIFEST.setup_cmd: nothing to build (pure Python); verify that the tree under
# test imports in a fresh interpreter from files on disk only.
import os, sys, subprocess, tempfile, shutil
sys.path.insert(0, os.path.dirname(os.path.abspath(__file__)))
from sim import core
try:
    core.import_sut()
    import miasmx
    print('setup ok: miasmx from %s, python %s' % (miasmx.__file__, sys.version.split()[0]))
finally:
    core.cleanup_workdir()
