#!/venv/bin/python
# Sensitivity self-test: applies each patch of the corpus (mutants/*.patch and
# seeded/*/patch.diff) to a scratch copy of /repo's HEAD under /dev/shm, checks
# that the repository's own test suite still passes there, runs the quick check
# of the property the patch targets against the copy (VERIF_REPO) and records
# whether it exits 1.  Scratch copies are removed.  Usage:
#   run_mutants.py [--jobs N] [--all-props] [patch files...]
import os, sys, json, subprocess, tempfile, shutil, time, glob, re, argparse
from concurrent.futures import ThreadPoolExecutor
HERE = os.path.dirname(os.path.abspath(__file__))
PY = '/venv/bin/python'
REPO = '/repo'

def patch_info(path):
    prop, name = None, os.path.basename(path)
    if os.path.basename(path) == 'patch.diff':
        d = os.path.dirname(path)
        name = 'seeded/' + os.path.basename(d)
        try:
            prop = json.load(open(os.path.join(d, 'meta.json')))['property']
        except Exception:
            pass
    else:
        for line in open(path):
            m = re.match(r'# property: (C\d+)', line)
            if m:
                prop = m.group(1)
                break
    return name, prop

def run_one(path, all_props=False, workers=None):
    name, prop = patch_info(path)
    base = '/dev/shm' if os.access('/dev/shm', os.W_OK) else None
    scratch = tempfile.mkdtemp(prefix='miasmx-mut.', dir=base)
    res = {'name': name, 'property': prop, 'patch': os.path.relpath(path, HERE)}
    try:
        tree = os.path.join(scratch, 'tree')
        os.makedirs(tree)
        subprocess.run('git -C %s archive HEAD | tar -x -C %s' % (REPO, tree), shell=True, check=True)
        r = subprocess.run(['git', 'apply', '--whitespace=nowarn', os.path.abspath(path)], cwd=tree, capture_output=True, text=True)
        if r.returncode != 0:
            # context moved by a later fix: commit in /repo: same hunks, located with fuzz
            r = subprocess.run(['patch', '-p1', '--fuzz=3', '--no-backup-if-mismatch', '-s', '-i', os.path.abspath(path)], cwd=tree, capture_output=True, text=True)
            res['applied_with_fuzz'] = (r.returncode == 0)
        if r.returncode != 0:
            res['status'] = 'patch-does-not-apply'
            res['detail'] = r.stderr[-300:]
            return res
        env = dict(os.environ)
        env.update({'PYTHONPATH': tree, 'TMPDIR': os.path.join(scratch, 'tmp'), 'PYTHONDONTWRITEBYTECODE': '1'})
        os.makedirs(env['TMPDIR'])
        # a developer's temp directory already holds the parser tables of the unmodified tree
        for fn in os.listdir(WARM):
            shutil.copy(os.path.join(WARM, fn), env['TMPDIR'])
        t = subprocess.run([PY, '-m', 'pytest', '-q', '-p', 'no:cacheprovider', '-x'], cwd=tree, env=env, capture_output=True, text=True, timeout=1800)
        tail = t.stdout.strip().split('\n')[-1] if t.stdout.strip() else ''
        res['tests'] = tail
        if t.returncode != 0 or '278 passed' not in tail:
            res['status'] = 'invalid-mutant(tests-fail)'
            return res
        props = [prop] if not all_props else ['C07', 'C10', 'C12', 'C13']
        res['checks'] = {}
        for p in props:
            env2 = dict(os.environ)
            env2.pop('PYTHONHASHSEED', None)
            env2.update({'VERIF_REPO': tree, 'VERIF_EVIDENCE_DIR': os.path.join(scratch, 'ev'), 'VERIF_REPLAY_DIR': os.path.join(scratch, 'rp'),
                         'VERIF_WORK': os.path.join(scratch, 'work-' + p)})
            if workers:
                env2['VERIF_WORKERS'] = str(workers)
            t0 = time.monotonic()
            c = subprocess.run([PY, os.path.join(HERE, 'vcheck.py'), p, '--tier', 'quick'], env=env2, capture_output=True, text=True, timeout=3600)
            lines = c.stdout.strip().split('\n')
            cls = [l.strip() for l in lines if l.strip().startswith('class=')]
            res['checks'][p] = {'rc': c.returncode, 'wall_s': round(time.monotonic() - t0, 1), 'classes': cls[:3],
                                'last': lines[-1][:300] if lines else ''}
        rc = res['checks'][prop]['rc'] if prop in res['checks'] else None
        res['status'] = {1: 'caught', 0: 'NOT-caught', 2: 'harness-error'}.get(rc, 'rc=%s' % rc)
        return res
    except Exception as e:
        res['status'] = 'runner-error'
        res['detail'] = repr(e)[:300]
        return res
    finally:
        shutil.rmtree(scratch, ignore_errors=True)

WARM = None
def make_warm():
    global WARM
    base = '/dev/shm' if os.access('/dev/shm', os.W_OK) else None
    WARM = tempfile.mkdtemp(prefix='miasmx-mut-warm.', dir=base)
    env = dict(os.environ)
    env.update({'TMPDIR': WARM, 'PYTHONPATH': REPO, 'PYTHONDONTWRITEBYTECODE': '1'})
    subprocess.run([PY, '-c', 'import miasmx.arch.ia32_arch, miasmx.core.parse_ad'], env=env, check=True, capture_output=True)

def main():
    make_warm()
    try:
        return main2()
    finally:
        shutil.rmtree(WARM, ignore_errors=True)

def main2():
    ap = argparse.ArgumentParser()
    ap.add_argument('patches', nargs='*')
    ap.add_argument('--jobs', type=int, default=4)
    ap.add_argument('--all-props', action='store_true')
    ap.add_argument('--out')
    a = ap.parse_args()
    paths = a.patches or sorted(glob.glob(os.path.join(HERE, 'mutants', '*.patch'))) + sorted(glob.glob(os.path.join(HERE, 'seeded', '*', 'patch.diff')))
    workers = max(2, (os.cpu_count() or 4) // a.jobs)
    with ThreadPoolExecutor(a.jobs) as ex:
        results = list(ex.map(lambda p: run_one(p, a.all_props, workers), paths))
    for r in results:
        c = r.get('checks', {}).get(r['property'], {})
        print('%-40s %-4s %-28s %6ss  %s' % (r['name'], r['property'], r['status'], c.get('wall_s', '-'), '; '.join(c.get('classes', []))[:120]))
    if a.out:
        with open(a.out, 'w') as f:
            json.dump(results, f, indent=1)
    return 0

if __name__ == '__main__':
    sys.exit(main())
