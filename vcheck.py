#!/venv/bin/python
# Single entry point of the miasmX deterministic-simulation checks.
#   vcheck.py <C07|C10|C12|C13> [--tier quick|thorough] [--replay FILE] [--runs N]
#   vcheck.py selftest
import os, sys, argparse
sys.path.insert(0, os.path.dirname(os.path.abspath(__file__)))
from sim import core

def main():
    ap = argparse.ArgumentParser()
    ap.add_argument('prop')
    ap.add_argument('--tier', default=os.environ.get('VERIF_TIER', 'quick'))
    ap.add_argument('--replay')
    ap.add_argument('--runs', type=int)
    ap.add_argument('--world')
    args = ap.parse_args()
    core.reexec_pinned()
    try:
        if args.prop == 'C12':
            from sim import c12
            rc = c12.main(args)
        elif args.prop == 'C07':
            from sim import c07
            rc = c07.main(args)
        elif args.prop == 'C10':
            from sim import c10
            rc = c10.main(args)
        elif args.prop == 'C13':
            from sim import c13
            rc = c13.main(args)
        elif args.prop == 'selftest':
            from sim import selftest
            rc = selftest.main(args)
        else:
            print('unknown property %s' % args.prop)
            rc = 2
    except core.HarnessError as e:
        print('HARNESS-ERROR %s' % e)
        rc = 2
    finally:
        core.cleanup_workdir()
    sys.exit(rc)

if __name__ == '__main__':
    main()
