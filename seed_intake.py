#!/venv/bin/python
# Intake of a seeded change produced by a sub-agent: verifies, in scratch copies
# of /repo's HEAD, that (1) the patch applies, (2) the 278 tests pass with it,
# (3) the demonstration fails with it and (4) passes without it; then stores
# patch.diff, demo.py, meta.json under /verif/seeded/<id>/.
#   seed_intake.py <outdir> <k> <seeded-id>
import os, sys, json, subprocess, tempfile, shutil
HERE = os.path.dirname(os.path.abspath(__file__))
PY = '/venv/bin/python'
def sh(cmd, **kw):
    return subprocess.run(cmd, capture_output=True, text=True, **kw)
def main():
    outdir, k, sid = sys.argv[1], sys.argv[2], sys.argv[3]
    patch = os.path.join(outdir, 'patch%s.diff' % k)
    demo = os.path.join(outdir, 'demo%s.py' % k)
    meta = json.load(open(os.path.join(outdir, 'meta%s.json' % k)))
    scratch = tempfile.mkdtemp(prefix='miasmx-seed.', dir='/dev/shm')
    log = {}
    try:
        res = {}
        for variant in ('clean', 'patched'):
            tree = os.path.join(scratch, variant)
            os.makedirs(tree)
            subprocess.run('git -C /repo archive HEAD | tar -x -C %s' % tree, shell=True, check=True)
            if variant == 'patched':
                r = sh(['git', 'apply', '--whitespace=nowarn', os.path.abspath(patch)], cwd=tree)
                if r.returncode != 0:
                    # written against the commit before a later fix: commit: same hunks, located with fuzz, patch.diff kept as written (run_mutants.py applies it the same way)
                    r = sh(['patch', '-p1', '--fuzz=3', '--no-backup-if-mismatch', '-s', '-i', os.path.abspath(patch)], cwd=tree)
                    log['fuzz'] = (r.returncode == 0)
                log['apply'] = r.returncode
                if r.returncode != 0:
                    print('patch does not apply:', r.stderr[-400:]); return 1
            tmp = os.path.join(scratch, 'tmp-' + variant)
            os.makedirs(tmp)
            env = dict(os.environ)
            env.update({'PYTHONPATH': tree, 'TMPDIR': tmp, 'PYTHONDONTWRITEBYTECODE': '1'})
            env.pop('PYTHONHASHSEED', None)
            # warm cache first with the CLEAN tree's tables (as on a developer machine) for the test run
            t = sh([PY, '-m', 'pytest', '-q', '-p', 'no:cacheprovider'], cwd=tree, env=env, timeout=1800)
            tail = t.stdout.strip().split('\n')[-1] if t.stdout.strip() else ''
            d = sh([PY, os.path.abspath(demo)], cwd=tree, env=env, timeout=600)
            res[variant] = {'tests': tail, 'demo_rc': d.returncode, 'demo_tail': (d.stdout + d.stderr).strip()[-300:]}
            print(variant, res[variant])
        ok = ('278 passed' in res['clean']['tests'] and '278 passed' in res['patched']['tests'] and
              res['clean']['demo_rc'] == 0 and res['patched']['demo_rc'] != 0)
        if not ok:
            print('NOT ACCEPTED'); return 1
        dst = os.path.join(HERE, 'seeded', sid)
        os.makedirs(dst, exist_ok=True)
        shutil.copy(patch, os.path.join(dst, 'patch.diff'))
        shutil.copy(demo, os.path.join(dst, 'demo.py'))
        meta2 = {'property': meta.get('property'), 'breaks': meta.get('summary'), 'needs_to_manifest': meta.get('needs_to_manifest'),
                 'why_tests_pass': meta.get('why_tests_pass'), 'files_changed': meta.get('files_changed'),
                 'origin': 'independent sub-agent given only the property text and a scratch worktree',
                 'applied_with_fuzz': bool(log.get('fuzz')),
                 'verified_by_me': {'base_commit': sh(['git', '-C', '/repo', 'rev-parse', 'HEAD']).stdout.strip(),
                                    'commands': ['git archive HEAD | tar -x (clean and patched scratch copies under /dev/shm)', 'git apply patch.diff',
                                                 'PYTHONPATH=<tree> TMPDIR=<private> /venv/bin/python -m pytest -q -p no:cacheprovider',
                                                 'PYTHONPATH=<tree> TMPDIR=<private> /venv/bin/python demo.py'],
                                    'clean': res['clean'], 'patched': res['patched']}}
        json.dump(meta2, open(os.path.join(dst, 'meta.json'), 'w'), indent=1)
        print('ACCEPTED ->', dst)
        return 0
    finally:
        shutil.rmtree(scratch, ignore_errors=True)
sys.exit(main())
